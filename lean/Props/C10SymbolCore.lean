/-
  GENERATED-BY-HAND-ONCE (tools/oneoff/mkcore.py) from the proof of `final_class_fixed_symbol`: the same proof with the writer
  context, the segment list and the statements behind the segments left open; `final_class_fixed_symbol_partial` instantiates it
  for the main script of partial mode.
-/
import Props.C10Symbol
import Props.C10Partial
namespace Slinky.C10
open Slinky W Ld

/-- `final_class_fixed_symbol` for any writer context and any statements behind the segments. -/
theorem class_fixed_symbol_core (objs : List InSec) (cx : Ctx) (hsy : cx.emitSecSyms = true) (vc : Bool)
    (segs : List Segment) (ls : List Line) (emitted : List Str) (T : List Line)
    (hsegs : addSegments cx [] segs = .ok (ls, emitted))
    (hall : ∀ s ∈ segs, shouldEmit cx.o s.cond = true → s.allocSections ≠ [])
    (defsyms : List (Str × Nat))
    (pre post : List Segment) (seg : Segment) (hsplit : segs = pre ++ seg :: post)
    (hinc : shouldEmit cx.o seg.cond = true)
    (c : Str) (vcl : VramClass) (v : Nat)
    (hfv : seg.fixedVram = none) (hfs : seg.fixedSymbol = none) (hfol : seg.followsSegment = none) (hcl : seg.vramClass = some c)
    (hfind : findClass cx.d c = some vcl) (fs : Str) (hcn : vcl.fixedVram = none) (hcsym : vcl.fixedSymbol = some fs)
    (hds : lookupLast fs (defsyms.map fun kv => (kv.1, Val.num kv.2)) = some (.num v))
    (hfs0 : assignCount fs (versionComment vc ++ (beginSections cx ++ ls ++ T)) = 0)
    (hcnt : assignCount (cx.d.settings.style.classStart c) (versionComment vc ++ (beginSections cx ++ ls ++ T)) ≤ 1) :
    ∃ os ∈ (link objs defsyms (versionComment vc ++ (beginSections cx ++ ls ++ T))).secs, os.name = c!"." ++ seg.name ∧ os.noload = false ∧ os.addr = v ∧
      (link objs defsyms (versionComment vc ++ (beginSections cx ++ ls ++ T))).sym (cx.d.settings.style.classStart c) = some v := by
  have hstart : lookupLast fs (carry (passes objs (versionComment vc ++ (beginSections cx ++ ls ++ T)) (defsyms.map fun kv => (kv.1, Val.num kv.2)) 1)) = some (.num v) :=
    C03.carry_num _ fs v (C03.passes_num objs (versionComment vc ++ (beginSections cx ++ ls ++ T)) _ fs v hds hfs0 1)
  generalize hd : cx.d = d at *
  generalize ho' : cx.o = o at *
  rw [hsplit] at hsegs
  obtain ⟨lsPre, em1, lsSeg, em2, lsPost, hpre, hseg, hpost, rfl⟩ := C03.addSegments_split cx pre seg post [] ls emitted hsegs
  have hallc : ∀ s ∈ pre ++ seg :: post, shouldEmit cx.o s.cond = true → s.allocSections ≠ [] := by
    rw [ho', ← hsplit]; exact hall
  have hform : versionComment vc ++ (beginSections cx ++ (lsPre ++ (lsSeg ++ lsPost)) ++ T)
      = versionComment vc ++ (beginSections cx ++ (lsPre ++ (lsSeg ++ (lsPost ++ T)))) := by
    simp [List.append_assoc]
  rw [hform] at hcnt hfs0 hstart ⊢
  have hb0 : ∀ n, assignCount n (versionComment vc) = 0 := fun n => Slinky.C04.assignCount_quiet n _ (Slinky.C04.versionComment_quiet vc)
  simp only [assignCount_append, hb0] at hcnt hfs0
  rw [← hd] at hcnt hfind ⊢
  generalize hcs : cx.d.settings.style.classStart c = cs at *
  have hcsdot : cs ≠ c!"." := by rw [← hcs]; exact endsOk_ne_dot _ (classStart_ok _ _)
  have hcsrom : cs ≠ romPos := by rw [← hcs]; exact ne_romPos (classStart_ok _ _)
  rw [link_eq]
  generalize carry _ = S0 at hstart ⊢
  rw [execK_append, Slinky.C04.execK_quiet objs _ (Slinky.C04.versionComment_quiet vc)]
  rw [execK_append, execK_append, execK_append]
  have hb : ∃ st1, st1 = execK objs { syms := S0 } (beginSections cx) (lsPre ++ (lsSeg ++ (lsPost ++ T)) ++ []) ∧ Outside st1 ∧
      lookupLast Ld.romPos st1.syms = some (.num 0) := by
    refine ⟨_, rfl, ?_, ?_⟩
    · unfold beginSections
      cases cx.d.settings.hardcodedGpValue <;> simp [execK, step, setSym] <;> exact ⟨rfl, rfl⟩
    · unfold beginSections
      cases cx.d.settings.hardcodedGpValue <;> simp [execK, step, setSym, eval, lookupLast_snoc, lookupLast_snoc2, Ld.romPos]
  obtain ⟨st1, e1, o1, r1⟩ := hb
  have hfs1 : lookupLast fs st1.syms = some (.num v) := by
    rw [e1, execK_keeps_count objs fs _ _ _ (by omega)]; exact hstart
  rw [← e1]
  -- the segments in front
  obtain ⟨st2, r2, e2, o2, hr2, hinv2, hcnt2⟩ := class_start_kept_sym objs cx hsy c vcl v hfind fs hcn hcsym pre [] lsPre em1 hpre
    (fun s hs => hallc s (List.mem_append_left _ hs)) st1 o1 0 r1 (lsSeg ++ (lsPost ++ T) ++ [])
    (fun hm => nomatch hm) (by rw [hcs]; omega) (fun hm => nomatch hm) hfs1 (by omega)
  have hfs2 : lookupLast fs st2.syms = some (.num v) := by
    rw [e2, execK_keeps_count objs fs _ _ _ (by omega)]; exact hfs1
  rw [hcs] at hinv2 hcnt2
  rw [← e2]
  -- the segment itself: the class start symbol holds `v` behind it
  obtain ⟨hval3, hfirst3⟩ := class_start_step_sym objs cx c vcl v hfind fs hcn hcsym em1 seg lsSeg em2 hseg st2 o2 (lsPost ++ T ++ []) hfs2
    (by rw [hcs]; exact hinv2) (by rw [hcs]; omega)
    (fun hm => by rw [hcs]; have := hcnt2 hm (fun h => nomatch h); omega)
  rw [hcs] at hval3 hfirst3
  have hsa : segAddr cx seg = some cs := by
    unfold segAddr; simp [hfv, hfs, hfol, hcl, hcs]
  have hincx : shouldEmit cx.o seg.cond = true := by rw [ho']; exact hinc
  have hne := hallc seg (List.mem_append_right _ List.mem_cons_self) hincx
  have hem2 : c ∈ em2 ∧ ∃ os ∈ (execK objs st2 lsSeg (lsPost ++ T ++ [])).secs, os.name = c!"." ++ seg.name ∧ os.addr = v ∧ os.noload = false := by
    by_cases hin1 : c ∈ em1
    · -- a later member: its own statements do not assign the class start symbol
      have h0 : assignCount cs lsSeg = 0 := by have := hcnt2 hin1 (fun h => nomatch h); omega
      have hmem : c ∈ em2 := by
        unfold addSegment at hseg
        simp only [hincx, Bool.not_true, Bool.false_eq_true, if_false, classPart_of_class cx em1 seg c vcl hcl hfind, hin1, if_true] at hseg
        split at hseg
        · contradiction
        · split at hseg
          · contradiction
          · injection hseg with hseg
            simp only [Prod.mk.injEq] at hseg
            rw [← hseg.2]; exact hin1
      exact ⟨hmem, C03.segment_sym_addr objs cx hsy em1 seg lsSeg em2 hseg hincx hne st2 o2 r2 hr2 (lsPost ++ T ++ []) cs hsa hcsdot hcsrom
        v (hinv2 hin1) h0⟩
    · -- the first emitted member: the prologue stands in front of it
      unfold addSegment at hseg
      simp only [hincx, Bool.not_true, Bool.false_eq_true, if_false, classPart_of_class cx em1 seg c vcl hcl hfind, hin1, if_false] at hseg
      split at hseg
      · contradiction
      · rename_i alloc halloc
        split at hseg
        · contradiction
        · rename_i noload hnoload
          injection hseg with hseg
          simp only [Prod.mk.injEq] at hseg
          obtain ⟨rfl, rfl⟩ := hseg
          refine ⟨by simp, ?_⟩
          rw [segmentLines_cls, execK_append]
          obtain ⟨o3, _, _, _, hval⟩ := class_intro_image objs cx c vcl st2 o2 (fun _ => v)
            (segmentLines cx seg [] alloc noload ++ (lsPost ++ T ++ []))
            (by intro fs' _ h2; rw [hcsym] at h2; injection h2 with h2; subst h2; exact hfs2) (by intro _ h2; rw [hcsym] at h2; cases h2)
          simp only [hcn, hcsym] at hval
          rw [hcs] at hval
          have hr3 := run_outer_keeps objs romPos (classIntro cx c vcl) (fun l hl => (classIntro_outer cx c vcl l hl).1)
            (fun l hl => (classIntro_outer cx c vcl l hl).2) st2 o2 (segmentLines cx seg [] alloc noload ++ (lsPost ++ T ++ []))
          obtain ⟨aE, al, lmaV, hsec⟩ := member_starts_at_class objs cx seg alloc noload c (by rw [hcs]; exact hsa) halloc hnoload hne hsy
            _ o3 r2 (hr3.trans hr2) v (by rw [hcs]; exact hval) (lsPost ++ T ++ [])
          exact ⟨_, hsec, rfl, rfl, rfl⟩
  obtain ⟨hmem2, os, hos, g1, g2, g3⟩ := hem2
  obtain ⟨extra, hxs⟩ := execK_secs objs (lsPost ++ T) (execK objs st2 lsSeg (lsPost ++ T ++ [])) []
  refine ⟨os, by simp only [imageOf]; rw [hxs]; exact List.mem_append_left _ hos, g1, g3, g2, ?_⟩
  have hrest0 : assignCount cs (lsPost ++ T) = 0 := by
    rw [assignCount_append]
    by_cases hin1 : c ∈ em1
    · have := hcnt2 hin1 (fun h => nomatch h); omega
    · have := hfirst3 hmem2 hin1; omega
  rw [imageOf_sym, execK_keeps_count objs cs (lsPost ++ T) _ [] hrest0, hval3 hmem2]
  rfl


/-- `final_class_fixed_symbol` for the main script of partial mode. -/
theorem final_class_fixed_symbol_partial (objs : List InSec) (d : Document) (o : Opts) (vc : Bool) (out : PartialOut)
    (h : generatePartial d o vc = .ok out)
    (hall : ∀ s ∈ d.segments, shouldEmit o s.cond = true → s.allocSections ≠ [])
    (defsyms : List (Str × Nat)) (folder : Str) (hfolder : d.settings.partialBuildSegmentsFolder = some folder)
    (pre post : List Segment) (seg : Segment) (hsplit : C03.partialSegs d o folder = pre ++ seg :: post)
    (c : Str) (vcl : VramClass) (v : Nat)
    (hfv : seg.fixedVram = none) (hfs : seg.fixedSymbol = none) (hfol : seg.followsSegment = none) (hcl : seg.vramClass = some c)
    (hfind : findClass d c = some vcl) (fs : Str) (hcn : vcl.fixedVram = none) (hcsym : vcl.fixedSymbol = some fs)
    (hds : lookupLast fs (defsyms.map fun kv => (kv.1, Val.num kv.2)) = some (.num v))
    (hfs0 : assignCount fs out.main = 0)
    (hcnt : assignCount (d.settings.style.classStart c) out.main ≤ 1) :
    ∃ os ∈ (link objs defsyms out.main).secs, os.name = c!"." ++ seg.name ∧ os.noload = false ∧ os.addr = v ∧
      (link objs defsyms out.main).sym (d.settings.style.classStart c) = some v := by
  obtain ⟨folder', ls, emitted, hf', hsegs, hmain⟩ := C03.partial_main_shape d o vc out h
  rw [hfolder] at hf'; injection hf' with hf'; subst hf'
  rw [hmain] at hfs0 hcnt ⊢
  have hinc : shouldEmit o seg.cond = true :=
    C03.partialSegs_emitted d o folder seg (hsplit ▸ List.mem_append_right _ List.mem_cons_self)
  exact class_fixed_symbol_core objs (C03.partialCx d o) rfl vc _ ls emitted _ hsegs (C03.partialSegs_alloc d o folder hall) defsyms
    pre post seg hsplit hinc c vcl v hfv hfs hfol hcl hfind fs hcn hcsym hds hfs0 hcnt

end Slinky.C10
