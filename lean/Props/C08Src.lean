/-
  C08, "every other setting takes its documented default when omitted" — tied to the source text.

  `Src.defaults` (lean/Src/Tables.lean) is written by tools/extract_tables.py from the *current*
  `settings_default_*` functions and `impl Default for Settings` of /repo/slinky/src/settings.rs on
  every run.  The theorems below say that the model's `Settings` record has exactly those
  defaults, field by field; they are re-checked against what the code says now each time, so a
  changed default breaks a proof obligation even if no generated document happens to rely on it.
-/
import Src.Tables
import Props.C08
namespace Slinky.C08

/-- the model's default settings are the source's, field by field. -/
theorem defaults_are_the_sources : Src.defaults = ({} : Settings) := rfl

/-- in particular the documented defaults of the overridable options (`docs/file_format/settings.md`). -/
theorem source_default_lists :
    Src.defaults.allocSections = [c!".text", c!".data", c!".rodata", c!".sdata"] ∧
    Src.defaults.noloadSections = [c!".sbss", c!".scommon", c!".bss", c!"COMMON"] ∧
    Src.defaults.fillValue = some 0 ∧ Src.defaults.wildcardSections = true ∧
    Src.defaults.subalign = none ∧ Src.defaults.sectionsSubgroups = [] ∧
    Src.defaults.discardWildcardSection = true ∧ Src.defaults.symbolsHeaderType = c!"char" := by
  refine ⟨rfl, rfl, rfl, rfl, rfl, rfl, rfl, rfl⟩

end Slinky.C08
