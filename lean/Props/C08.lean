/-
  C08 — segment options override global settings, which override documented defaults.
-/
import Props.Lemmas
namespace Slinky.C08
open Slinky

theorem nonNull_eq {α} (a : AN α) (d : α) : a.nonNull d = nonNullable a d := by
  cases a <;> rfl

theorem optionalNullable_eq {α} (a : AN α) (d : Option α) : a.optionalNullable d = nullable a d := by
  cases a <;> rfl

/-- resolving an explicitly restated level yields the restated values whatever the level
above says: restating the effective value never changes anything, and a global change never
reaches a segment that overrides the option. -/
theorem explicit_shields (up : Resolved) (r : Resolved) : resolve up (explicit r) = .ok r := by
  obtain ⟨a, n, sa, ssa, sea, s1, s2, m1, m2, wc, fv, sub⟩ := r
  cases sa <;> cases ssa <;> cases sea <;> cases s1 <;> cases s2 <;> cases fv <;> rfl

/-- **per-segment resolution.** Every one of the twelve overridable options of a parsed
segment is: the segment's own value; for `subalign`, the four `*_align` options and `fill_value`
an explicit `null` disables it; for the other six `null` is rejected; when absent, the value
of the (already resolved) global settings. -/
theorem segment_resolution (st : Settings) (s : SegmentS) (seg : Segment)
    (h : segmentRest st s = .ok seg) : resolve (ofSettings st) s.over = .ok (ofSegment seg) := by
  unfold segmentRest segmentTail at h
  repeat (first | contradiction | split at h | dsimp only at h)
  all_goals first
    | contradiction
    | injection h with h
      subst h
      simp_all [resolve, ofSettings, ofSegment, nonNull_eq, optionalNullable_eq]


theorem ofSettings_default : ofSettings {} = defaults := rfl

/-- **global resolution.** The same table one level up: a setting takes its own value, `null`
disables a nullable option and is rejected for the others, and an absent setting takes the
documented default. -/
theorem settings_resolution (s : SettingsS) (st : Settings) (h : s.unserialize = .ok st) :
    resolve defaults s.over = .ok (ofSettings st) := by
  unfold SettingsS.unserialize at h
  peel h
  all_goals first
    | contradiction
    | injection h with h
      subst h
      simp_all [resolve, ofSettings, defaults, nonNull_eq, optionalNullable_eq]

/-- every other setting takes its documented default when omitted. -/
theorem other_defaults (s : SettingsS) (st : Settings) (h : s.unserialize = .ok st) :
    (s.basePath = .absent → st.basePath = []) ∧
    (s.style = .absent → st.style = .splat) ∧
    (s.hardcodedGpValue = .absent → st.hardcodedGpValue = none) ∧
    (s.dPath = .absent → st.dPath = none) ∧
    (s.targetPath = .absent → st.targetPath = none) ∧
    (s.symbolsHeaderPath = .absent → st.symbolsHeaderPath = none) ∧
    (s.symbolsHeaderType = .absent → st.symbolsHeaderType = c!"char") ∧
    (s.symbolsHeaderAsArray = .absent → st.symbolsHeaderAsArray = true) ∧
    (s.sectionsAllowlist = .absent → st.sectionsAllowlist = []) ∧
    (s.sectionsAllowlistExtra = .absent → st.sectionsAllowlistExtra = [c!".symtab", c!".strtab", c!".shstrtab"]) ∧
    (s.sectionsDenylist = .absent → st.sectionsDenylist =
        [c!".reginfo", c!".MIPS.abiflags", c!".MIPS.options", c!".note.gnu.build-id", c!".interp", c!".eh_frame", c!".got"]) ∧
    (s.discardWildcardSection = .absent → st.discardWildcardSection = true) ∧
    (s.singleSegmentMode = .absent → st.singleSegmentMode = false) ∧
    (s.partialScriptsFolder = .absent → st.partialScriptsFolder = none) ∧
    (s.partialBuildSegmentsFolder = .absent → st.partialBuildSegmentsFolder = none) := by
  unfold SettingsS.unserialize at h
  peel h
  all_goals first
    | contradiction
    | injection h with h
      subst h
      refine ⟨?_, ?_, ?_, ?_, ?_, ?_, ?_, ?_, ?_, ?_, ?_, ?_, ?_, ?_, ?_⟩ <;> intro ha <;>
        simp_all [AN.nonNull, AN.optionalNullable]

/-- a document without a `settings` block uses the defaults for everything. -/
theorem no_settings_block (ds : DocumentS) (r : Settings × List VramClass) (h0 : ds.settings = .absent)
    (h : documentPre ds = .ok r) : ofSettings r.1 = defaults := by
  unfold documentPre at h
  simp only [h0, AN.nonNullNoDefault] at h
  peel h
  all_goals first
    | contradiction
    | injection h with h
      subst h
      rfl

end Slinky.C08
