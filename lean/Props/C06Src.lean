/-
  C06, the inclusion predicate — tied to the source text. `Src.should_emit_entry` (lean/Src/Logic.lean) is the
  translation of the body of `RuntimeSettings::should_emit_entry` in /repo's *current* runtime_settings.rs,
  written by tools/extract_logic.py on every run (early returns as else-branches, the mutable `exit` as nested
  `let`s). The theorem says that the model's `shouldEmit` — hence, by `C06.predicate`, the documented predicate —
  is that function, for every option map and all four lists.
-/
import Src.Logic
import Props.C06
namespace Slinky.C06

theorem shouldEmit_src (o : Opts) (c : Cond) :
    shouldEmit o c = Src.should_emit_entry o c.excludeIfAny c.excludeIfAll c.includeIfAny c.includeIfAll := by
  unfold shouldEmit Src.should_emit_entry
  generalize List.any c.excludeIfAny (pairMatches o) = b1
  generalize List.all c.excludeIfAll (pairMatches o) = b2
  generalize List.any c.includeIfAny (pairMatches o) = b3
  generalize List.all c.includeIfAll (pairMatches o) = b4
  generalize List.isEmpty c.excludeIfAll = e2
  generalize List.isEmpty c.includeIfAny = e3
  generalize List.isEmpty c.includeIfAll = e4
  cases b1 <;> cases b2 <;> cases b3 <;> cases b4 <;> cases e2 <;> cases e3 <;> cases e4 <;> rfl

/-- the documented predicate is what the source computes. -/
theorem source_is_documented (o : Opts) (c : Cond) :
    Src.should_emit_entry o c.excludeIfAny c.excludeIfAll c.includeIfAny c.includeIfAll = specEmit o c := by
  rw [← shouldEmit_src]; exact predicate o c

end Slinky.C06
