/-
  C05 in the image `Ld.link` returns: the start, end and size symbols of a section group, for the
  whole ordinary script of a document.

  `group_image` (Props/ImageGroup.lean) speaks about one group, entered *inside* its output section.
  This file supplies the way there — `sectionLoop_split` / `writeSegment_split` cut the statements of an
  output section at the group of one of its sections, `group_in_section` and `group_in_segment` show
  that the link reaches that group inside the output section (header, `{`, the groups in front) —
  and the way back: `Ld.execK_keeps_count` carries the three symbols to the end of the script when the
  script assigns each of them once.
-/
import Props.C03Start
namespace Slinky.C05
open Slinky W Ld

/-- the per-section loop cut at one section. -/
theorem sectionLoop_split (f : Str → R (List Line)) : ∀ (s1 : List Str) (sec : Str) (s2 : List Str) (body : List Line),
    sectionLoop f (s1 ++ sec :: s2) = .ok body → ∃ P g Q, f sec = .ok g ∧ body = P ++ g ++ Q := by
  intro s1
  induction s1 with
  | nil =>
    intro sec s2 body h
    cases s2 with
    | nil =>
      simp only [List.nil_append, sectionLoop] at h
      exact ⟨[], body, [], h, by simp⟩
    | cons x xs =>
      simp only [List.nil_append, sectionLoop] at h
      split at h
      · contradiction
      · rename_i a ha
        split at h
        · contradiction
        · rename_i b hb
          injection h with h
          exact ⟨[], a, [.blank] ++ b, ha, by rw [← h]; simp⟩
  | cons p s1 ih =>
    intro sec s2 body h
    cases hr : s1 ++ sec :: s2 with
    | nil => simp at hr
    | cons y ys =>
      simp only [List.cons_append, hr, sectionLoop] at h
      split at h
      · contradiction
      · rename_i a ha
        split at h
        · contradiction
        · rename_i b hb
          injection h with h
          rw [← hr] at hb
          obtain ⟨P, g, Q, hg, hbq⟩ := ih sec s2 b hb
          exact ⟨a ++ [.blank] ++ P, g, Q, hg, by rw [← h, hbq]; simp [List.append_assoc]⟩

/-- everything the per-section loop of `write_segment` writes is a statement of the inside of an output section. -/
theorem loop_inner (cx : Ctx) (seg : Segment) (secs : List Str) (body : List Line)
    (h : sectionLoop (fun sec =>
      match emitSection cx seg sec secs with
      | .error e => .error e
      | .ok b => .ok (sectionSymStart cx seg sec ++ b ++ sectionSymEnd cx seg sec)) secs = .ok body) :
    ∀ l ∈ body, InnerLine cx.d.settings.style seg.wildcardSections l := by
  intro l hl
  rcases sectionLoop_mem _ _ _ h l hl with h1 | ⟨s, _, rs, hrs, hls⟩
  · subst h1; exact .blank
  · split at hrs
    · contradiction
    · rename_i b hb
      injection hrs with hrs
      subst hrs
      simp only [List.mem_append] at hls
      rcases hls with (hls | hls) | hls
      · exact sectionSymStart_inner cx seg s l hls
      · exact .body (emitSection_body cx seg s secs b hb l hls)
      · exact sectionSymEnd_inner cx seg s l hls

/-- the statements of one output section cut at the group of one of its sections. -/
theorem writeSegment_split (cx : Ctx) (seg : Segment) (noload : Bool) (ls : List Line) (s1 : List Str) (sec : Str) (s2 : List Str)
    (h : writeSegment cx seg (s1 ++ sec :: s2) noload = .ok ls) :
    ∃ (fill P emitted Q : List Line),
      ls = segmentStart cx seg noload ++ fill ++ P ++ (sectionSymStart cx seg sec ++ emitted ++ sectionSymEnd cx seg sec) ++ Q
              ++ [.blockClose] ++ kindEnd cx seg noload ∧
      (fill = [] ∨ ∃ v, fill = [Line.fill v]) ∧
      (∀ l ∈ P, InnerLine cx.d.settings.style seg.wildcardSections l) ∧
      (∀ l ∈ emitted, BodyLine cx.d.settings.style seg.wildcardSections l) ∧
      (∀ l ∈ Q, InnerLine cx.d.settings.style seg.wildcardSections l) := by
  unfold writeSegment at h
  split at h
  · contradiction
  · rename_i body hbody
    injection h with h
    have hin := loop_inner cx seg _ body hbody
    obtain ⟨P, g, Q, hg, hb⟩ := sectionLoop_split _ s1 sec s2 body hbody
    split at hg
    · contradiction
    · rename_i emitted hem
      injection hg with hg
      cases hfv : seg.fillValue with
      | none =>
        rw [hfv] at h
        refine ⟨[], P, emitted, Q, ?_, Or.inl rfl, ?_, emitSection_body cx seg sec _ emitted hem, ?_⟩
        · rw [← h, hb, ← hg]; simp [List.append_assoc]
        · intro l hl; exact hin l (by rw [hb]; simp [hl])
        · intro l hl; exact hin l (by rw [hb]; simp [hl])
      | some v =>
        rw [hfv] at h
        refine ⟨[.fill v], P, emitted, Q, ?_, Or.inr ⟨v, rfl⟩, ?_, emitSection_body cx seg sec _ emitted hem, ?_⟩
        · rw [← h, hb, ← hg]; simp [List.append_assoc]
        · intro l hl; exact hin l (by rw [hb]; simp [hl])
        · intro l hl; exact hin l (by rw [hb]; simp [hl])

/-- the group `G` of one section, with what precedes and follows it in the statements of its output section. -/
def groupOf (cx : Ctx) (seg : Segment) (sec : Str) (emitted : List Line) : List Line :=
  sectionSymStart cx seg sec ++ emitted ++ sectionSymEnd cx seg sec

/-- **the link reaches the group of a section inside its output section**: the statements of an output section
are `A ++ G ++ B` with `G` the group, and from every state outside an output section the statements `A`
(kind start symbol, header, `{`, `FILL`, the groups in front) lead to a state inside one. -/
theorem group_in_section (objs : List InSec) (cx : Ctx) (seg : Segment) (noload : Bool) (ls : List Line)
    (s1 : List Str) (sec : Str) (s2 : List Str)
    (h : writeSegment cx seg (s1 ++ sec :: s2) noload = .ok ls) :
    ∃ (A emitted B : List Line), ls = A ++ groupOf cx seg sec emitted ++ B ∧
      (∀ l ∈ emitted, BodyLine cx.d.settings.style seg.wildcardSections l) ∧
      ∀ (st : St) (_ : Outside st) (k : List Line), ∃ c, Inside c (execK objs st A k) := by
  obtain ⟨fill, P, emitted, Q, hls, hfill, hP, hem, hQ⟩ := writeSegment_split cx seg noload ls s1 sec s2 h
  refine ⟨segmentStart cx seg noload ++ fill ++ P, emitted, Q ++ [.blockClose] ++ kindEnd cx seg noload, ?_, hem, ?_⟩
  · rw [hls]; simp [groupOf, List.append_assoc]
  · intro st ho k
    have hfillno : ∀ (s : St) (kk : List Line), execK objs s fill kk = s := by
      intro s kk
      rcases hfill with rfl | ⟨v, rfl⟩ <;> simp [execK, step]
    have hss : segmentStart cx seg noload = kindStart cx seg noload ++
        [ (if noload then Line.outHdr (c!"." ++ seg.name ++ c!".noload") true none none seg.subalign
           else Line.outHdr (c!"." ++ seg.name) false (segAddr cx seg) (some (cx.d.settings.style.segRomStart seg.name)) seg.subalign),
          Line.blockOpen ] := rfl
    rw [hss]
    generalize hH : (if noload then Line.outHdr (c!"." ++ seg.name ++ c!".noload") true none none seg.subalign
           else Line.outHdr (c!"." ++ seg.name) false (segAddr cx seg) (some (cx.d.settings.style.segRomStart seg.name)) seg.subalign) = H
    simp only [execK_append, List.append_assoc, hfillno]
    obtain ⟨o1, _, _, _⟩ := run_outer objs _ (kindStart_outer cx seg noload) st ho ([H, Line.blockOpen] ++ (fill ++ (P ++ k)))
    generalize execK objs st (kindStart cx seg noload) _ = st1 at *
    have hhdr : ∃ c, Inside c (execK objs st1 [H, Line.blockOpen] (fill ++ (P ++ k))) := by
      rw [← hH]
      cases noload with
      | true =>
        simp only [if_true, execK, step]
        exact ⟨_, rfl, Nat.le_refl _, o1.nd⟩
      | false =>
        simp only [Bool.false_eq_true, if_false, execK, step]
        exact ⟨_, rfl, Nat.le_refl _, o1.nd⟩
    obtain ⟨c, hin⟩ := hhdr
    exact ⟨c, (run_inner objs _ _ c P hP _ hin k).inside⟩

theorem startAligns_outside (objs : List InSec) (seg : Segment) (st : St) (ho : Outside st) (r : Nat)
    (hr : lookupLast romPos st.syms = some (.num r)) (k : List Line) : Outside (execK objs st (C03.startAligns seg) k) := by
  obtain ⟨st', e, o, _⟩ := seg_aligns objs seg.segmentStartAlign st ho r hr k
  unfold C03.startAligns
  cases hsa : seg.segmentStartAlign with
  | none => exact ho
  | some a =>
    rw [hsa] at e
    have e' : st' = execK objs st [alignSymbol c!"__romPos" a, alignSymbol c!"." a] k := e
    show Outside (execK objs st [alignSymbol c!"__romPos" a, alignSymbol c!"." a] k)
    rw [← e']; exact o

/-- **the link reaches the group of a section of an emitted segment inside its output section**: the statements
`add_segment` writes are `A ++ G ++ B` with `G` the group of that section (allocatable: `nl = false`, noload:
`nl = true`), and from every state outside an output section in which the ROM counter is a number the statements
`A` lead to a state inside one. -/
theorem group_in_segment (objs : List InSec) (cx : Ctx) (seg : Segment) (cls alloc noload : List Line)
    (hcls : ∀ l ∈ cls, OuterLine l ∧ symOf l ≠ some romPos)
    (ha : writeSegment cx seg seg.allocSections false = .ok alloc)
    (hn : writeSegment cx seg seg.noloadSections true = .ok noload)
    (nl : Bool) (s1 : List Str) (sec : Str) (s2 : List Str)
    (hs : (if nl then seg.noloadSections else seg.allocSections) = s1 ++ sec :: s2) :
    ∃ (A emitted B : List Line), segmentLines cx seg cls alloc noload = A ++ groupOf cx seg sec emitted ++ B ∧
      (∀ l ∈ emitted, BodyLine cx.d.settings.style seg.wildcardSections l) ∧
      ∀ (st : St) (_ : Outside st) (r : Nat) (_ : lookupLast romPos st.syms = some (.num r)) (k : List Line),
        ∃ c, Inside c (execK objs st A k) := by
  generalize hR : linkerSym (cx.d.settings.style.segRomStart seg.name) (.sym c!"__romPos") = romStart
  generalize hV : linkerSym (cx.d.settings.style.segVramStart seg.name) (.addr (c!"." ++ seg.name)) = vramStart
  have hRo : OuterLine romStart := by rw [← hR]; exact .sym _ _ _ _ _ (endsOk_ne_dot _ (segRomStart_ok _ _))
  have hVo : OuterLine vramStart := by rw [← hV]; exact .sym _ _ _ _ _ (endsOk_ne_dot _ (segVramStart_ok _ _))
  -- the state in front of the allocatable part
  have hfront : ∀ (st : St) (_ : Outside st) (r : Nat) (_ : lookupLast romPos st.syms = some (.num r)) (k : List Line),
      Outside (execK objs st ((cls ++ (C03.startAligns seg ++ [romStart])) ++ [vramStart]) k) := by
    intro st ho r hr k
    simp only [execK_append, List.append_assoc]
    obtain ⟨o1, _, _, _⟩ := run_outer objs cls (fun l hl => (hcls l hl).1) st ho
      (C03.startAligns seg ++ ([romStart] ++ ([vramStart] ++ k)))
    have r1 := run_outer_keeps objs romPos cls (fun l hl => (hcls l hl).1) (fun l hl => (hcls l hl).2) st ho
      (C03.startAligns seg ++ ([romStart] ++ ([vramStart] ++ k)))
    generalize execK objs st cls _ = st1 at *
    have o2 := startAligns_outside objs seg st1 o1 r (r1.trans hr) ([romStart] ++ ([vramStart] ++ k))
    generalize execK objs st1 (C03.startAligns seg) _ = st2 at *
    obtain ⟨o3, _, _, _⟩ := run_outer objs [romStart] (by intro l hl; rw [List.mem_singleton.1 hl]; exact hRo) st2 o2 ([vramStart] ++ k)
    generalize execK objs st2 [romStart] _ = st3 at *
    exact (run_outer objs [vramStart] (by intro l hl; rw [List.mem_singleton.1 hl]; exact hVo) st3 o3 k).1
  cases nl with
  | false =>
    simp only [Bool.false_eq_true, if_false] at hs
    rw [hs] at ha
    obtain ⟨A, emitted, B, hls, hem, hst⟩ := group_in_section objs cx seg false alloc s1 sec s2 ha
    refine ⟨((cls ++ (C03.startAligns seg ++ [romStart])) ++ [vramStart]) ++ A, emitted,
      B ++ ([.blank] ++ (noload ++ ([.blank] ++ segTail cx seg))), ?_, hem, ?_⟩
    · rw [C03.segmentLines_split, hR, hV, hls]; simp [List.append_assoc]
    · intro st ho r hr k
      rw [execK_append]
      exact hst _ (hfront st ho r hr (A ++ k)) k
  | true =>
    simp only [if_true] at hs
    rw [hs] at hn
    obtain ⟨A, emitted, B, hls, hem, hst⟩ := group_in_section objs cx seg true noload s1 sec s2 hn
    refine ⟨((cls ++ (C03.startAligns seg ++ [romStart])) ++ [vramStart]) ++ (alloc ++ ([.blank] ++ A)), emitted,
      B ++ ([.blank] ++ segTail cx seg), ?_, hem, ?_⟩
    · rw [C03.segmentLines_split, hR, hV, hls]; simp [List.append_assoc]
    · intro st ho r hr k
      rw [execK_append, execK_append, execK_append]
      have o4 := hfront st ho r hr (alloc ++ ([.blank] ++ A) ++ k)
      generalize execK objs st ((cls ++ (C03.startAligns seg ++ [romStart])) ++ [vramStart]) _ = st4 at *
      obtain ⟨_, _, _, _, st5, _, _, e5, _, _, _, _, _, _, o5, _⟩ := section_image objs cx seg seg.allocSections false alloc ha st4 o4
        ([.blank] ++ A ++ k)
      rw [← e5]
      have hb : execK objs st5 [.blank] (A ++ k) = st5 := by simp [execK, step]
      rw [hb]
      exact hst st5 o5 k

/-- the group assigns its three symbols. -/
theorem group_assigns (cx : Ctx) (seg : Segment) (sec : Str) (emitted : List Line) (hsy : cx.emitSecSyms = true) :
    1 ≤ assignCount (cx.d.settings.style.secStart seg.name sec) (groupOf cx seg sec emitted) ∧
    1 ≤ assignCount (cx.d.settings.style.secEnd seg.name sec) (groupOf cx seg sec emitted) ∧
    1 ≤ assignCount (cx.d.settings.style.secSize seg.name sec) (groupOf cx seg sec emitted) := by
  unfold groupOf
  rw [groupStart_eq cx seg sec hsy, groupEnd_eq cx seg sec hsy]
  refine ⟨?_, ?_, ?_⟩
  · exact assignCount_pos (l := linkerSym (cx.d.settings.style.secStart seg.name sec) .dot) (by simp)
      (Slinky.C04.symOf_linkerSym _ _ (endsOk_ne_dot _ (secStart_ok _ _ _)))
  · exact assignCount_pos (l := linkerSym (cx.d.settings.style.secEnd seg.name sec) .dot) (by simp)
      (Slinky.C04.symOf_linkerSym _ _ (endsOk_ne_dot _ (secEnd_ok _ _ _)))
  · exact assignCount_pos (l := linkerSym (cx.d.settings.style.secSize seg.name sec)
        (.absSub (cx.d.settings.style.secEnd seg.name sec) (cx.d.settings.style.secStart seg.name sec))) (by simp)
      (Slinky.C04.symOf_linkerSym _ _ (endsOk_ne_dot _ (secSize_ok _ _ _)))

/-- **C05 in the linked image, for the whole ordinary script of a document: the symbols of a section group.**
For every document in multi-segment mode whose emitted segments have an allocatable section, every option set,
object table and `--defsym` table: for an emitted segment and a section of its allocatable (`nl = false`) or noload
(`nl = true`) list whose start, end and size symbols the script assigns once each, the image `Ld.link` computes
holds numbers `s ≤ e` with the start symbol `s`, the end symbol `e` and the size symbol `e - s` (as a 32-bit
value). -/
theorem final_group_symbols (objs : List InSec) (d : Document) (o : Opts) (vc : Bool) (script : List Line)
    (hmulti : d.settings.singleSegmentMode = false)
    (h : generateNormal d o vc = .ok script)
    (hall : ∀ s ∈ d.segments, shouldEmit o s.cond = true → s.allocSections ≠ [])
    (defsyms : List (Str × Nat))
    (pre post : List Segment) (seg : Segment) (hsplit : d.segments = pre ++ seg :: post)
    (hinc : shouldEmit o seg.cond = true)
    (nl : Bool) (s1 : List Str) (sec : Str) (s2 : List Str)
    (hs : (if nl then seg.noloadSections else seg.allocSections) = s1 ++ sec :: s2)
    (hc1 : assignCount (d.settings.style.secStart seg.name sec) script ≤ 1)
    (hc2 : assignCount (d.settings.style.secEnd seg.name sec) script ≤ 1)
    (hc3 : assignCount (d.settings.style.secSize seg.name sec) script ≤ 1) :
    ∃ s e : Nat, s ≤ e ∧
      (link objs defsyms script).sym (d.settings.style.secStart seg.name sec) = some s ∧
      (link objs defsyms script).sym (d.settings.style.secEnd seg.name sec) = some e ∧
      (link objs defsyms script).sym (d.settings.style.secSize seg.name sec) = some ((e + M32 - s % M32) % M32) := by
  unfold generateNormal at h
  split at h
  · contradiction
  · rename_i body hbody
    injection h with h
    subst h
    unfold addAllSegments at hbody
    simp only [hmulti, Bool.false_eq_true, if_false] at hbody
    split at hbody
    · contradiction
    · rename_i ls emitted hsegs
      injection hbody with hbody
      subst hbody
      generalize hcx : ({ d := d, o := o } : Ctx) = cx at *
      have hd : cx.d = d := by rw [← hcx]
      have ho' : cx.o = o := by rw [← hcx]
      have hsy : cx.emitSecSyms = true := by rw [← hcx]
      rw [hsplit] at hsegs
      obtain ⟨lsPre, em1, lsSeg, em2, lsPost, hpre, hseg, hpost, rfl⟩ := C03.addSegments_split cx pre seg post [] ls emitted hsegs
      have hallc : ∀ s ∈ pre ++ seg :: post, shouldEmit cx.o s.cond = true → s.allocSections ≠ [] := by
        rw [ho', ← hsplit]; exact hall
      unfold addSegment at hseg
      simp only [ho', hinc, Bool.not_true, Bool.false_eq_true, if_false] at hseg
      split at hseg
      · contradiction
      · rename_i cls em3 hcp
        split at hseg
        · contradiction
        · rename_i alloc halloc
          split at hseg
          · contradiction
          · rename_i noload hnoload
            injection hseg with hseg
            simp only [Prod.mk.injEq] at hseg
            obtain ⟨rfl, rfl⟩ := hseg
            have hcls : ∀ l ∈ cls, OuterLine l ∧ symOf l ≠ some romPos := by
              unfold classPart at hcp
              split at hcp
              · injection hcp with hcp; simp only [Prod.mk.injEq] at hcp; obtain ⟨rfl, _⟩ := hcp
                intro l hl; cases hl
              · split at hcp
                · contradiction
                · rename_i vcl _
                  split at hcp
                  · injection hcp with hcp; simp only [Prod.mk.injEq] at hcp; obtain ⟨rfl, _⟩ := hcp
                    intro l hl; cases hl
                  · injection hcp with hcp; simp only [Prod.mk.injEq] at hcp; obtain ⟨rfl, _⟩ := hcp
                    exact classIntro_outer cx _ vcl
            obtain ⟨A, emittedG, B, hlines, hem, hreach⟩ := group_in_segment objs cx seg cls alloc noload hcls halloc hnoload nl s1 sec s2 hs
            obtain ⟨a1, a2, a3⟩ := group_assigns cx seg sec emittedG hsy
            rw [hd] at a1 a2 a3
            generalize hG : groupOf cx seg sec emittedG = G at *
            generalize hT : endSections cx emitted ++ topLevel d o = T
            have hform : versionComment vc ++ (beginSections cx ++ (lsPre ++ (segmentLines cx seg cls alloc noload ++ lsPost)) ++ endSections cx emitted) ++ topLevel d o
                = versionComment vc ++ (beginSections cx ++ (lsPre ++ (A ++ (G ++ (B ++ (lsPost ++ T)))))) := by
              rw [← hT, hlines]; simp [List.append_assoc]
            rw [hform] at hc1 hc2 hc3 ⊢
            have hb0 : ∀ n, assignCount n (versionComment vc) = 0 := fun n => Slinky.C04.assignCount_quiet n _ (Slinky.C04.versionComment_quiet vc)
            simp only [assignCount_append, hb0] at hc1 hc2 hc3
            rw [link_eq]
            generalize carry _ = S0
            rw [execK_append, Slinky.C04.execK_quiet objs _ (Slinky.C04.versionComment_quiet vc)]
            rw [execK_append, execK_append, execK_append, execK_append]
            have hb : ∃ st1, st1 = execK objs { syms := S0 } (beginSections cx) (lsPre ++ (A ++ (G ++ (B ++ (lsPost ++ T)))) ++ []) ∧ Outside st1 ∧
                lookupLast Ld.romPos st1.syms = some (.num 0) := by
              refine ⟨_, rfl, ?_, ?_⟩
              · unfold beginSections
                cases cx.d.settings.hardcodedGpValue <;> simp [execK, step, setSym] <;> exact ⟨rfl, rfl⟩
              · unfold beginSections
                cases cx.d.settings.hardcodedGpValue <;> simp [execK, step, setSym, eval, lookupLast_snoc, lookupLast_snoc2, Ld.romPos]
            obtain ⟨st1, e1, o1, r1⟩ := hb
            rw [← e1]
            obtain ⟨_, st2, r2, e2, o2, hr2, _, _⟩ := C03.segments_vram_end objs cx hsy pre [] lsPre em1 hpre
              (fun s hs => hallc s (List.mem_append_left _ hs)) st1 o1 0 r1 (A ++ (G ++ (B ++ (lsPost ++ T))) ++ [])
            rw [← e2]
            obtain ⟨c, hin⟩ := hreach st2 o2 r2 hr2 (G ++ (B ++ (lsPost ++ T)) ++ [])
            generalize execK objs st2 A _ = st3 at *
            rw [← hG] at *
            obtain ⟨sv, ev, new, st4, e4, f1, f2, f3, f4, _, _, g1, g2, g3, _⟩ :=
              group_image objs cx seg sec hsy emittedG hem c st3 hin (B ++ (lsPost ++ T) ++ [])
            unfold groupOf
            rw [← e4]
            rw [hd] at g1 g2 g3
            refine ⟨sv, ev, f3, ?_, ?_, ?_⟩
            · rw [imageOf_sym, execK_keeps_count objs _ (B ++ (lsPost ++ T)) st4 [] (by simp only [assignCount_append]; omega), g1]; rfl
            · rw [imageOf_sym, execK_keeps_count objs _ (B ++ (lsPost ++ T)) st4 [] (by simp only [assignCount_append]; omega), g2]; rfl
            · rw [imageOf_sym, execK_keeps_count objs _ (B ++ (lsPost ++ T)) st4 [] (by simp only [assignCount_append]; omega), g3]; rfl

/-- the hypotheses are met and the numbers are real: in the example document of `C04Final` the `.text` group of `boot`
holds the 20 bytes of `a.o(.text)` at 0x80000000, and the `.bss` group of its noload part the 100 bytes behind them
(rounded up to 8). -/
example : (match generateNormal C04.exDoc C04.exOpts false with
    | .ok script =>
      decide (assignCount c!"boot_TEXT_START" script = 1) && decide (assignCount c!"boot_TEXT_END" script = 1)
      && decide (assignCount c!"boot_BSS_SIZE" script = 1)
      && decide ((link C04.exObjs [] script).sym c!"boot_TEXT_START" = some 0x80000000)
      && decide ((link C04.exObjs [] script).sym c!"boot_TEXT_END" = some 0x80000014)
      && decide ((link C04.exObjs [] script).sym c!"boot_TEXT_SIZE" = some 20)
      && decide ((link C04.exObjs [] script).sym c!"boot_BSS_START" = some 0x80000018)
      && decide ((link C04.exObjs [] script).sym c!"boot_BSS_SIZE" = some 100)
    | .error _ => false) = true := by decide +kernel

end Slinky.C05
