/-
  C11, two-step clause: from the abstract scripts of `Props/C11TwoStep.lean` to the scripts the
  writer model generates.  This file shows the shape facts the hypotheses of
  `two_step_document_same_order` ask for:

    * the segment part of an ordinary or main script is a sequence of quiet lines and closed
      output-section blocks, so the input statements inside output sections are simply its
      input statements (`blockInputs_addSegments`), and no line is a single-entry section or
      part of `/DISCARD/` (`plain_addSegments`);
    * the main script's statements for a segment are one per section group, for the partial
      object, with the segment's wildcard flag (`main_inputs`);
    * the output sections of a partial script are the segment's section groups with exactly the
      statements of the ordinary script (`partial_blocks`).
-/
import Props.C11TwoStep
namespace Slinky.C11
open Slinky W Ld

/-! ### quiet lines and closed blocks -/

def isInputB : Line → Bool
  | .input _ _ _ _ _ => true
  | _ => false

/-- a line that neither opens or closes an output section, nor is an input statement, a
single-entry section or part of `/DISCARD/`. -/
def quiet : Line → Bool
  | .outHdr _ _ _ _ _ => false
  | .blockClose => false
  | .input _ _ _ _ _ => false
  | .singleEntry _ _ => false
  | .discardHdr => false
  | .discardPat _ => false
  | _ => true

def isHdr : Line → Bool
  | .outHdr _ _ _ _ _ => true
  | _ => false

/-- quiet lines and closed output-section blocks whose bodies hold quiet lines and input statements. -/
inductive Chunks : List Line → Prop
  | nil : Chunks []
  | skip {l : Line} {ls : List Line} : quiet l = true → Chunks ls → Chunks (l :: ls)
  | blk {h : Line} {body rest : List Line} : isHdr h = true → (∀ l ∈ body, quiet l = true ∨ isInputB l = true) →
      Chunks rest → Chunks (h :: (body ++ .blockClose :: rest))

theorem Chunks.append {a b : List Line} (ha : Chunks a) (hb : Chunks b) : Chunks (a ++ b) := by
  induction ha with
  | nil => exact hb
  | skip hq _ ih => exact Chunks.skip hq ih
  | @blk h body rest hh hbody _ ih =>
    have : h :: (body ++ Line.blockClose :: rest) ++ b = h :: (body ++ Line.blockClose :: (rest ++ b)) := by simp
    rw [this]
    exact Chunks.blk hh hbody ih

theorem Chunks.ofQuiet {l : List Line} (h : ∀ x ∈ l, quiet x = true) : Chunks l := by
  induction l with
  | nil => exact Chunks.nil
  | cons a as ih => exact Chunks.skip (h a List.mem_cons_self) (ih (fun x hx => h x (List.mem_cons_of_mem _ hx)))

theorem blockInputs_body : ∀ (body : List Line) (R : List Line), (∀ l ∈ body, quiet l = true ∨ isInputB l = true) →
    blockInputs true (body ++ R) = body.filter isInputB ++ blockInputs true R := by
  intro body
  induction body with
  | nil => intro R _; rfl
  | cons a as ih =>
    intro R h
    have ha := h a List.mem_cons_self
    have hr := ih R (fun x hx => h x (List.mem_cons_of_mem _ hx))
    cases a <;> simp [quiet, isInputB] at ha <;> simp [blockInputs, isInputB, hr, List.filter_cons]

/-- **inside output sections = everywhere**, for a script part made of quiet lines and closed blocks. -/
theorem blockInputs_chunks {ls : List Line} (h : Chunks ls) (R : List Line) :
    blockInputs false (ls ++ R) = ls.filter isInputB ++ blockInputs false R := by
  induction h with
  | nil => rfl
  | @skip l ls hq _ ih =>
    cases l <;> simp [quiet] at hq <;> simp [blockInputs, isInputB, ih]
  | @blk h body rest hh hbody _ ih =>
    cases h <;> simp [isHdr] at hh
    simp only [List.cons_append, blockInputs, List.append_assoc]
    rw [blockInputs_body body _ hbody]
    simp only [List.cons_append, blockInputs, List.filter_cons, isInputB, List.filter_append]
    rw [ih]
    simp

theorem plain_of_chunks {ls : List Line} (h : Chunks ls) : ∀ l ∈ ls, plain l = true := by
  induction h with
  | nil => intro l hl; cases hl
  | @skip l ls hq _ ih =>
    intro x hx
    rcases List.mem_cons.1 hx with rfl | hx
    · cases x <;> simp [quiet] at hq <;> rfl
    · exact ih x hx
  | @blk h body rest hh hbody _ ih =>
    intro x hx
    rcases List.mem_cons.1 hx with rfl | hx
    · cases x <;> simp [isHdr] at hh; rfl
    · rcases List.mem_append.1 hx with hx | hx
      · rcases hbody x hx with hq | hi
        · cases x <;> simp [quiet] at hq <;> rfl
        · cases x <;> simp [isInputB] at hi; rfl
      · rcases List.mem_cons.1 hx with rfl | hx
        · rfl
        · exact ih x hx

/-! ### the writer's output is made of such chunks -/

theorem innerLine_ok (st : Style) (wild : Bool) (l : Line) (h : InnerLine st wild l) : quiet l = true ∨ isInputB l = true := by
  cases h with
  | body hb =>
    cases hb with
    | input => right; rfl
    | pad => left; rfl
    | offset => left; rfl
  | blank => left; rfl
  | alignDot => left; rfl
  | gp => left; rfl
  | symDot => left; rfl
  | symSize => left; rfl

theorem kindStart_quiet (cx : Ctx) (seg : Segment) (nl : Bool) : ∀ l ∈ kindStart cx seg nl, quiet l = true := by
  intro l hl
  unfold kindStart at hl
  split at hl
  · simp at hl; rcases hl with rfl | rfl <;> rfl
  · simp at hl

theorem kindEnd_quiet (cx : Ctx) (seg : Segment) (nl : Bool) : ∀ l ∈ kindEnd cx seg nl, quiet l = true := by
  intro l hl
  unfold kindEnd at hl
  split at hl
  · simp [symEndSize] at hl; rcases hl with rfl | rfl | rfl <;> rfl
  · simp at hl

theorem chunks_section_shape (cx : Ctx) (seg : Segment) (nl : Bool) (F body : List Line)
    (hF : ∀ l ∈ F, quiet l = true) (hbody : ∀ l ∈ body, quiet l = true ∨ isInputB l = true) :
    Chunks (segmentStart cx seg nl ++ F ++ body ++ [.blockClose] ++ kindEnd cx seg nl) := by
  unfold segmentStart
  simp only [List.append_assoc]
  refine (Chunks.ofQuiet (kindStart_quiet cx seg nl)).append ?_
  simp only [List.cons_append, List.nil_append]
  have hb : ∀ l ∈ (Line.blockOpen :: (F ++ body)), quiet l = true ∨ isInputB l = true := by
    intro l hl
    rcases List.mem_cons.1 hl with rfl | hl
    · left; rfl
    · rcases List.mem_append.1 hl with hl | hl
      · exact Or.inl (hF l hl)
      · exact hbody l hl
  have := Chunks.blk (h := if nl then Line.outHdr (c!"." ++ seg.name ++ c!".noload") true none none seg.subalign
      else Line.outHdr (c!"." ++ seg.name) false (segAddr cx seg) (some (cx.d.settings.style.segRomStart seg.name)) seg.subalign)
    (by cases nl <;> rfl) hb (Chunks.ofQuiet (kindEnd_quiet cx seg nl))
  simpa [List.append_assoc] using this

/-- one output section of a segment is: quiet lines, one closed block, quiet lines. -/
theorem chunks_writeSegment (cx : Ctx) (seg : Segment) (secs : List Str) (nl : Bool) (ls : List Line)
    (h : writeSegment cx seg secs nl = .ok ls) : Chunks ls := by
  obtain ⟨body, rfl, hbody⟩ := writeSegment_shape cx seg secs nl ls h
  refine chunks_section_shape cx seg nl _ body ?_ (fun l hl => innerLine_ok _ _ l (hbody l hl))
  intro l hl
  split at hl <;> simp at hl
  subst hl; rfl

theorem classPart_quiet (cx : Ctx) (em : List Str) (seg : Segment) (cls : List Line) (em' : List Str)
    (h : classPart cx em seg = .ok (cls, em')) : ∀ l ∈ cls, quiet l = true := by
  unfold classPart at h
  split at h
  · injection h with h; simp only [Prod.mk.injEq] at h; intro l hl; rw [← h.1] at hl; cases hl
  · split at h
    · contradiction
    · split at h
      · injection h with h; simp only [Prod.mk.injEq] at h; intro l hl; rw [← h.1] at hl; cases hl
      · injection h with h
        simp only [Prod.mk.injEq] at h
        intro l hl
        rw [← h.1] at hl
        unfold classIntro at hl
        simp only [List.mem_append, List.mem_cons, List.mem_nil_iff, or_false] at hl
        rcases hl with hl | rfl | rfl
        · split at hl
          · simp at hl; subst hl; rfl
          · split at hl
            · simp at hl; subst hl; rfl
            · simp only [List.mem_cons, List.mem_map] at hl
              rcases hl with rfl | ⟨o, _, rfl⟩ <;> rfl
        · rfl
        · rfl

/-- everything `add_segment` writes for a segment. -/
theorem chunks_addSegment (cx : Ctx) (em : List Str) (seg : Segment) (ls : List Line) (em' : List Str)
    (h : addSegment cx em seg = .ok (ls, em')) : Chunks ls := by
  unfold addSegment at h
  split at h
  · injection h with h; simp only [Prod.mk.injEq] at h; rw [← h.1]; exact Chunks.nil
  · split at h
    · contradiction
    · rename_i cls em1 hcls
      split at h
      · contradiction
      · rename_i alloc halloc
        split at h
        · contradiction
        · rename_i noload hnoload
          injection h with h
          simp only [Prod.mk.injEq] at h
          rw [← h.1]
          unfold segmentLines
          have q : ∀ {l : List Line}, (∀ x ∈ l, quiet x = true) → Chunks l := Chunks.ofQuiet
          refine Chunks.append (Chunks.append (Chunks.append (Chunks.append (Chunks.append (Chunks.append (Chunks.append (Chunks.append
            (Chunks.append (Chunks.append (Chunks.append (Chunks.append (q (classPart_quiet cx em seg cls em1 hcls)) ?_) ?_)
            (chunks_writeSegment cx seg _ false alloc halloc)) ?_) (chunks_writeSegment cx seg _ true noload hnoload)) ?_) ?_) ?_) ?_) ?_) ?_) ?_
          all_goals apply q
          all_goals intro x hx
          · split at hx <;> simp at hx
            rcases hx with rfl | rfl <;> rfl
          · simp at hx; rcases hx with rfl | rfl <;> rfl
          · simp at hx; subst hx; rfl
          · simp at hx; subst hx; rfl
          · simp at hx; subst hx; rfl
          · split at hx <;> simp at hx
            rcases hx with rfl | rfl <;> rfl
          · simp [symEndSize] at hx; rcases hx with rfl | rfl <;> rfl
          · simp [symEndSize] at hx; rcases hx with rfl | rfl <;> rfl
          · split at hx <;> simp at hx
            rcases hx with rfl | rfl <;> rfl
          · simp at hx; subst hx; rfl

theorem chunks_addSegments (cx : Ctx) : ∀ (l : List Segment) (em : List Str) (ls : List Line) (em' : List Str),
    addSegments cx em l = .ok (ls, em') → Chunks ls := by
  intro l
  induction l with
  | nil => intro em ls em' h; simp [addSegments] at h; obtain ⟨rfl, _⟩ := h; exact Chunks.nil
  | cons a as ih =>
    intro em ls em' h
    unfold addSegments at h
    split at h
    · contradiction
    · rename_i x em1 hx
      split at h
      · contradiction
      · rename_i y em2 hy
        injection h with h
        simp only [Prod.mk.injEq] at h
        rw [← h.1]
        exact (chunks_addSegment cx em a x em1 hx).append (ih em1 y em2 hy)

/-- **the segment part of a script**: its input statements inside output sections are all its
input statements, and it contains no single-entry section and no `/DISCARD/`. -/
theorem blockInputs_addSegments (cx : Ctx) (l : List Segment) (em : List Str) (ls : List Line) (em' : List Str)
    (h : addSegments cx em l = .ok (ls, em')) :
    blockInputs false ls = ls.filter isInputB ∧ ∀ x ∈ ls, plain x = true := by
  have hc := chunks_addSegments cx l em ls em' h
  refine ⟨?_, plain_of_chunks hc⟩
  have := blockInputs_chunks hc []
  simpa [blockInputs] using this


/-! ### which input statements, in which order -/

theorem filter_quiet {l : List Line} (h : ∀ x ∈ l, quiet x = true) : l.filter isInputB = [] := by
  rw [List.filter_eq_nil_iff]
  intro x hx
  have := h x hx
  cases x <;> simp [quiet] at this <;> simp [isInputB]

theorem sectionLoop_filter (f : Str → R (List Line)) : ∀ (l : List Str) (r : List Line), sectionLoop f l = .ok r →
    ∃ rs, mapE f l = .ok rs ∧ r.filter isInputB = rs.flatten.filter isInputB := by
  intro l
  induction l with
  | nil => intro r h; simp [sectionLoop] at h; subst h; exact ⟨[], rfl, rfl⟩
  | cons a as ih =>
    intro r h
    cases as with
    | nil =>
      simp only [sectionLoop] at h
      refine ⟨[r], ?_, by simp⟩
      simp [mapE, h]
    | cons b bs =>
      simp only [sectionLoop] at h
      split at h
      · contradiction
      · rename_i ra hra
        split at h
        · contradiction
        · rename_i rb hrb
          injection h with h
          subst h
          obtain ⟨rs, hrs, hf⟩ := ih rb hrb
          refine ⟨ra :: rs, ?_, ?_⟩
          · unfold mapE
            simp [hra, hrs]
          · simp only [List.filter_append, List.flatten_cons, hf]
            simp [isInputB]

theorem filter_section_shape (cx : Ctx) (seg : Segment) (nl : Bool) (F body : List Line) (hF : ∀ l ∈ F, quiet l = true) :
    (segmentStart cx seg nl ++ F ++ body ++ [Line.blockClose] ++ kindEnd cx seg nl).filter isInputB = body.filter isInputB := by
  unfold segmentStart
  simp only [List.filter_append, filter_quiet (kindStart_quiet cx seg nl), filter_quiet (kindEnd_quiet cx seg nl), filter_quiet hF]
  cases nl <;> simp [isInputB]

/-- the input statements of one output section of a segment: those of its section groups, in list order. -/
theorem inputs_writeSegment (cx : Ctx) (seg : Segment) (secs : List Str) (nl : Bool) (ls : List Line)
    (h : writeSegment cx seg secs nl = .ok ls) :
    ∃ bs, mapE (fun sec => emitSection cx seg sec secs) secs = .ok bs ∧ ls.filter isInputB = bs.flatten.filter isInputB := by
  unfold writeSegment at h
  split at h
  · contradiction
  · rename_i body hbody
    injection h with h
    subst h
    obtain ⟨rs, hrs, hf⟩ := sectionLoop_filter _ _ _ hbody
    -- every piece is start symbols ++ the group's statements ++ end symbols
    have key : ∀ (l : List Str) (rs : List (List Line)),
        mapE (fun sec => match emitSection cx seg sec secs with
          | .error e => .error e
          | .ok body => .ok (sectionSymStart cx seg sec ++ body ++ sectionSymEnd cx seg sec)) l = .ok rs →
        ∃ bs, mapE (fun sec => emitSection cx seg sec secs) l = .ok bs ∧ rs.flatten.filter isInputB = bs.flatten.filter isInputB := by
      intro l
      induction l with
      | nil => intro rs h; simp [mapE] at h; subst h; exact ⟨[], rfl, rfl⟩
      | cons a as ih =>
        intro rs h
        unfold mapE at h
        split at h
        · contradiction
        · rename_i x hx
          split at h
          · contradiction
          · rename_i xs hxs
            injection h with h
            subst h
            split at hx
            · contradiction
            · rename_i b hb
              injection hx with hx
              subst hx
              obtain ⟨bs, hbs, hfl⟩ := ih xs hxs
              refine ⟨b :: bs, by unfold mapE; simp [hb, hbs], ?_⟩
              have h1 : (sectionSymStart cx seg a).filter isInputB = [] := filter_quiet (fun x hx => by
                rcases innerLine_ok _ _ x (sectionSymStart_inner cx seg a x hx) with h | h
                · exact h
                · exfalso
                  have := sectionSymStart_inner cx seg a x hx
                  cases this with
                  | body hb' =>
                    unfold sectionSymStart at hx
                    split at hx
                    · simp only [List.mem_append, List.mem_cons, List.mem_nil_iff, or_false] at hx
                      rcases hx with ((hx | hx) | hx) | hx
                      · split at hx <;> simp at hx
                        subst hx; simp [isInputB, alignSymbol] at h
                      · split at hx <;> simp at hx
                        subst hx; simp [isInputB, alignSymbol] at h
                      · unfold gpLine at hx
                        split at hx
                        · simp at hx
                        · split at hx <;> simp at hx
                          subst hx; simp [isInputB] at h
                      · subst hx; simp [isInputB, linkerSym] at h
                    · simp at hx
                  | blank => simp [isInputB] at h
                  | alignDot => simp [isInputB, alignSymbol] at h
                  | gp => simp [isInputB] at h
                  | symDot => simp [isInputB, linkerSym] at h
                  | symSize => simp [isInputB, linkerSym] at h)
              have h2 : (sectionSymEnd cx seg a).filter isInputB = [] := by
                rw [List.filter_eq_nil_iff]
                intro x hx
                unfold sectionSymEnd at hx
                split at hx
                · simp only [List.mem_append, List.mem_cons, List.mem_nil_iff, or_false, symEndSize] at hx
                  rcases hx with (hx | hx) | hx
                  · split at hx <;> simp at hx
                    subst hx; simp [isInputB, alignSymbol]
                  · split at hx <;> simp at hx
                    subst hx; simp [isInputB, alignSymbol]
                  · rcases hx with rfl | rfl <;> simp [isInputB, linkerSym]
                · simp at hx
              simp only [List.flatten_cons, List.filter_append, h1, h2, hfl, List.nil_append, List.append_nil]
    obtain ⟨bs, hbs, hfl⟩ := key secs rs hrs
    refine ⟨bs, hbs, ?_⟩
    rw [filter_section_shape cx seg nl _ body, hf, hfl]
    intro l hl
    split at hl <;> simp at hl
    subst hl; rfl


theorem inputs_addSegment (cx : Ctx) (em : List Str) (seg : Segment) (ls : List Line) (em' : List Str)
    (h : addSegment cx em seg = .ok (ls, em')) (hinc : shouldEmit cx.o seg.cond = true) :
    ∃ ba bn, mapE (fun sec => emitSection cx seg sec seg.allocSections) seg.allocSections = .ok ba ∧
      mapE (fun sec => emitSection cx seg sec seg.noloadSections) seg.noloadSections = .ok bn ∧
      ls.filter isInputB = (ba ++ bn).flatten.filter isInputB := by
  unfold addSegment at h
  simp only [hinc, Bool.not_true, Bool.false_eq_true, if_false] at h
  split at h
  · contradiction
  · rename_i cls em1 hcls
    split at h
    · contradiction
    · rename_i alloc halloc
      split at h
      · contradiction
      · rename_i noload hnoload
        injection h with h
        simp only [Prod.mk.injEq] at h
        obtain ⟨ba, hba, hfa⟩ := inputs_writeSegment cx seg _ false alloc halloc
        obtain ⟨bn, hbn, hfn⟩ := inputs_writeSegment cx seg _ true noload hnoload
        refine ⟨ba, bn, hba, hbn, ?_⟩
        rw [← h.1]
        unfold segmentLines
        simp only [List.filter_append, hfa, hfn, filter_quiet (classPart_quiet cx em seg cls em1 hcls), List.flatten_append]
        simp only [isInputB, linkerSym, symEndSize, List.filter_cons, List.filter_nil, Bool.false_eq_true, if_false,
          List.nil_append, List.append_nil]
        split <;> split <;> split <;> simp [isInputB, alignSymbol, maxSelf]

theorem excluded_addSegment (cx : Ctx) (em : List Str) (seg : Segment) (hexc : shouldEmit cx.o seg.cond = false) :
    addSegment cx em seg = .ok ([], em) := by
  unfold addSegment
  simp [hexc]

theorem mapE_ok_map {α β ε} (f : α → Except ε β) (g : α → β) : ∀ (l : List α), (∀ a ∈ l, f a = .ok (g a)) →
    mapE f l = .ok (l.map g) := by
  intro l
  induction l with
  | nil => intro _; rfl
  | cons a as ih =>
    intro h
    unfold mapE
    rw [h a List.mem_cons_self, ih (fun x hx => h x (List.mem_cons_of_mem _ hx))]
    rfl

/-! ### the output sections of a partial script -/

theorem blocksOf_noHdr : ∀ (A B : List Line), (∀ l ∈ A, isHdr l = false) → blocksOf (A ++ B) = blocksOf B := by
  intro A
  induction A with
  | nil => intro B _; rfl
  | cons a as ih =>
    intro B h
    have ha := h a List.mem_cons_self
    have hr := ih B (fun x hx => h x (List.mem_cons_of_mem _ hx))
    cases a <;> simp [isHdr] at ha <;> simp [blocksOf, hr]

theorem blockBody_prefix : ∀ (A R : List Line), (∀ l ∈ A, l ≠ Line.blockClose) → blockBody (A ++ Line.blockClose :: R) = A := by
  intro A
  induction A with
  | nil => intro R _; rfl
  | cons a as ih =>
    intro R h
    have ha := h a List.mem_cons_self
    have hr := ih R (fun x hx => h x (List.mem_cons_of_mem _ hx))
    cases a <;> simp at ha <;> simp [blockBody, hr]


theorem bodyLine_facts (st : Style) (wild : Bool) (l : Line) (h : BodyLine st wild l) : isHdr l = false ∧ l ≠ Line.blockClose := by
  cases h <;> exact ⟨rfl, by simp [linkerSym]⟩

/-- one section group of a partial script (no section symbols): header, `{`, optional `FILL`,
the group's statements, `}` — i.e. one output section named after the group. -/
theorem blocks_piece (sec : Str) (nl : Bool) (sub : Option Nat) (F b R : List Line)
    (hF : ∀ l ∈ F, isHdr l = false ∧ l ≠ Line.blockClose) (hb : ∀ l ∈ b, isHdr l = false ∧ l ≠ Line.blockClose) :
    blocksOf ([Line.outHdr sec nl none none sub, Line.blockOpen] ++ F ++ b ++ [Line.blockClose] ++ R)
      = (sec, Line.blockOpen :: (F ++ b)) :: blocksOf R := by
  have hall : ∀ l ∈ Line.blockOpen :: (F ++ b), isHdr l = false ∧ l ≠ Line.blockClose := by
    intro l hl
    rcases List.mem_cons.1 hl with rfl | hl
    · exact ⟨rfl, by simp⟩
    · rcases List.mem_append.1 hl with hl | hl
      · exact hF l hl
      · exact hb l hl
  have e : [Line.outHdr sec nl none none sub, Line.blockOpen] ++ F ++ b ++ [Line.blockClose] ++ R
      = Line.outHdr sec nl none none sub :: ((Line.blockOpen :: (F ++ b)) ++ Line.blockClose :: R) := by simp
  rw [e]
  simp only [blocksOf]
  rw [blockBody_prefix _ R (fun l hl => (hall l hl).2)]
  congr 1
  have : (Line.blockOpen :: (F ++ b)) ++ Line.blockClose :: R = ((Line.blockOpen :: (F ++ b)) ++ [Line.blockClose]) ++ R := by simp
  rw [this]
  apply blocksOf_noHdr
  intro l hl
  rcases List.mem_append.1 hl with hl | hl
  · exact (hall l hl).1
  · simp at hl; subst hl; rfl

/-- **the output sections of one part of a partial script** (the writer of a partial script
writes no section and no kind symbols): one per section group, named after it, holding the
statements `emitSection` gives for the group. -/
theorem blocks_writeSingleSegment (cx : Ctx) (hs : cx.emitSecSyms = false) (hk : cx.emitKindSyms = false)
    (seg : Segment) (secs : List Str) (nl : Bool) (ls : List Line)
    (h : writeSingleSegment cx seg secs nl = .ok ls) :
    ∃ gs : List (Str × List Line), gs.map (·.1) = secs ∧
      (∃ bs, mapE (fun sec => emitSection cx seg sec secs) secs = .ok bs ∧
        (gs.flatMap (·.2)).filter isInputB = bs.flatten.filter isInputB) ∧
      ∀ R, blocksOf (ls ++ R) = gs ++ blocksOf R := by
  unfold writeSingleSegment at h
  split at h
  · contradiction
  · rename_i body hbody
    injection h with h
    subst h
    have hks : kindStart cx seg nl = [] := by unfold kindStart; simp [hk]
    have hke : kindEnd cx seg nl = [] := by unfold kindEnd; simp [hk]
    have hss : ∀ sec, sectionSymStart cx seg sec = [] := by intro sec; unfold sectionSymStart; simp [hs]
    have hse : ∀ sec, sectionSymEnd cx seg sec = [] := by intro sec; unfold sectionSymEnd; simp [hs]
    simp only [hks, hke, List.nil_append, List.append_nil]
    -- generalise the list the loop runs over (the second argument of `emitSection` stays `secs`)
    have key : ∀ (l : List Str) (body : List Line),
        sectionLoop (fun sec => match emitSection cx seg sec secs with
          | .error e => .error e
          | .ok b => .ok (sectionSymStart cx seg sec ++ [Line.outHdr sec nl none none seg.subalign, Line.blockOpen]
              ++ (match seg.fillValue with | some v => [Line.fill v] | none => []) ++ b ++ [Line.blockClose] ++ sectionSymEnd cx seg sec)) l = .ok body →
        ∃ gs : List (Str × List Line), gs.map (·.1) = l ∧
          (∃ bs, mapE (fun sec => emitSection cx seg sec secs) l = .ok bs ∧
            (gs.flatMap (·.2)).filter isInputB = bs.flatten.filter isInputB) ∧
          ∀ R, blocksOf (body ++ R) = gs ++ blocksOf R := by
      intro l
      induction l with
      | nil =>
        intro body hb
        simp [sectionLoop] at hb
        subst hb
        exact ⟨[], rfl, ⟨[], rfl, rfl⟩, fun R => rfl⟩
      | cons a as ih =>
        intro body hb
        -- the piece for `a`
        have piece : ∀ (b R : List Line), emitSection cx seg a secs = .ok b →
            blocksOf ((sectionSymStart cx seg a ++ [Line.outHdr a nl none none seg.subalign, Line.blockOpen]
              ++ (match seg.fillValue with | some v => [Line.fill v] | none => []) ++ b ++ [Line.blockClose] ++ sectionSymEnd cx seg a) ++ R)
            = (a, Line.blockOpen :: ((match seg.fillValue with | some v => [Line.fill v] | none => []) ++ b)) :: blocksOf R := by
          intro b R hbe
          rw [hss, hse]
          simp only [List.nil_append, List.append_nil]
          refine blocks_piece a nl seg.subalign _ b R ?_ ?_
          · intro l hl
            split at hl <;> simp at hl
            subst hl
            exact ⟨rfl, by simp⟩
          · intro l hl
            exact bodyLine_facts _ _ l (emitSection_body cx seg a secs b hbe l hl)
        have pieceInputs : ∀ (b : List Line),
            (Line.blockOpen :: ((match seg.fillValue with | some v => [Line.fill v] | none => []) ++ b)).filter isInputB = b.filter isInputB := by
          intro b
          simp only [List.filter_cons, isInputB, Bool.false_eq_true, if_false, List.filter_append]
          split <;> simp [isInputB]
        cases as with
        | nil =>
          simp only [sectionLoop] at hb
          split at hb
          · contradiction
          · rename_i b hbe
            injection hb with hb
            subst hb
            refine ⟨[(a, Line.blockOpen :: ((match seg.fillValue with | some v => [Line.fill v] | none => []) ++ b))], rfl,
              ⟨[b], by simp [mapE, hbe], ?_⟩, fun R => by rw [piece b R hbe]; rfl⟩
            simp only [List.flatMap_cons, List.flatMap_nil, List.append_nil, List.flatten_cons, List.flatten_nil]
            exact pieceInputs b
        | cons c cs =>
          simp only [sectionLoop] at hb
          split at hb
          · contradiction
          · rename_i ra hra
            split at hb
            · contradiction
            · rename_i rb hrb
              injection hb with hb
              subst hb
              split at hra
              · contradiction
              · rename_i b hbe
                injection hra with hra
                subst hra
                obtain ⟨gs, hgs, ⟨bs, hbs, hfl⟩, hblocks⟩ := ih rb hrb
                refine ⟨(a, Line.blockOpen :: ((match seg.fillValue with | some v => [Line.fill v] | none => []) ++ b)) :: gs, by simp [hgs],
                  ⟨b :: bs, by unfold mapE; simp [hbe, hbs], ?_⟩, ?_⟩
                · simp only [List.flatMap_cons, List.filter_append, List.flatten_cons, hfl]
                  rw [pieceInputs b]
                · intro R
                  have e : (sectionSymStart cx seg a ++ [Line.outHdr a nl none none seg.subalign, Line.blockOpen]
                      ++ (match seg.fillValue with | some v => [Line.fill v] | none => []) ++ b ++ [Line.blockClose] ++ sectionSymEnd cx seg a
                      ++ [Line.blank] ++ rb) ++ R
                    = (sectionSymStart cx seg a ++ [Line.outHdr a nl none none seg.subalign, Line.blockOpen]
                      ++ (match seg.fillValue with | some v => [Line.fill v] | none => []) ++ b ++ [Line.blockClose] ++ sectionSymEnd cx seg a)
                      ++ (Line.blank :: (rb ++ R)) := by simp
                  rw [e, piece b _ hbe]
                  simp only [blocksOf, hblocks R, List.cons_append]
    exact key secs body hbody


theorem endSections_noHdr (cx : Ctx) (em : List Str) : ∀ l ∈ endSections cx em, isHdr l = false := by
  intro l hl
  unfold endSections at hl
  simp only [List.mem_append, List.mem_cons, List.mem_nil_iff, or_false, List.mem_map, List.mem_filter] at hl
  rcases hl with (((hl | hl) | hl) | hl) | hl
  · obtain ⟨n, _, rfl⟩ := hl; rfl
  · split at hl
    · cases hl
    · simp only [List.mem_append, List.mem_map] at hl
      rcases hl with hl | ⟨x, _, rfl⟩
      · split at hl <;> simp at hl
        subst hl; rfl
      · rfl
  · split at hl
    · cases hl
    · simp only [List.mem_append, List.mem_map] at hl
      rcases hl with hl | ⟨x, _, rfl⟩
      · split at hl <;> simp at hl
        subst hl; rfl
      · rfl
  · split at hl
    · simp only [List.mem_append, List.mem_cons, List.mem_nil_iff, or_false, List.mem_map] at hl
      rcases hl with (((hl | hl) | hl) | hl) | hl
      · split at hl <;> simp at hl
        subst hl; rfl
      · rcases hl with rfl | rfl <;> rfl
      · obtain ⟨x, _, rfl⟩ := hl; rfl
      · split at hl <;> simp at hl
        subst hl; rfl
      · subst hl; rfl
    · cases hl
  · subst hl; rfl

theorem blocks_sub_shape (V G D alloc noload E : List Line) (ga gn : List (Str × List Line))
    (hV : ∀ l ∈ V, isHdr l = false) (hG : ∀ l ∈ G, isHdr l = false) (hD : ∀ l ∈ D, isHdr l = false)
    (hblka : ∀ R, blocksOf (alloc ++ R) = ga ++ blocksOf R) (hblkn : ∀ R, blocksOf (noload ++ R) = gn ++ blocksOf R)
    (hE : ∀ l ∈ E, isHdr l = false) :
    blocksOf (V ++ ([Line.sectionsKw, Line.blockOpen] ++ G ++ D ++ alloc ++ [Line.blank] ++ noload ++ [Line.blank] ++ E)) = ga ++ gn := by
  rw [blocksOf_noHdr V _ hV]
  simp only [List.append_assoc]
  have hpre : ∀ l ∈ ([Line.sectionsKw, Line.blockOpen] : List Line), isHdr l = false := by
    intro l hl; simp at hl; rcases hl with rfl | rfl <;> rfl
  have hbl : ∀ l ∈ ([Line.blank] : List Line), isHdr l = false := by
    intro l hl; simp at hl; subst hl; rfl
  rw [blocksOf_noHdr _ _ hpre, blocksOf_noHdr _ _ hG, blocksOf_noHdr _ _ hD, hblka, blocksOf_noHdr _ _ hbl, hblkn,
    blocksOf_noHdr _ _ hbl]
  have : blocksOf E = [] := by
    have := blocksOf_noHdr E [] hE
    simpa [blocksOf] using this
  rw [this]
  simp

/-- **the output sections of a partial script** are the section groups of its segment — the
allocatable ones, then the noload ones — each holding the statements the emitter gives for it. -/
theorem blocks_partial_script (cx : Ctx) (hs : cx.emitSecSyms = false) (hk : cx.emitKindSyms = false) (seg : Segment)
    (V sub : List Line) (hV : ∀ l ∈ V, isHdr l = false) (h : addSingleSegment cx seg = .ok sub) :
    ∃ gs : List (Str × List Line), gs.map (·.1) = seg.allocSections ++ seg.noloadSections ∧
      (∃ ba bn, mapE (fun sec => emitSection cx seg sec seg.allocSections) seg.allocSections = .ok ba ∧
        mapE (fun sec => emitSection cx seg sec seg.noloadSections) seg.noloadSections = .ok bn ∧
        (gs.flatMap (·.2)).filter isInputB = (ba ++ bn).flatten.filter isInputB) ∧
      blocksOf (V ++ sub) = gs := by
  unfold addSingleSegment at h
  split at h
  · contradiction
  · rename_i alloc halloc
    split at h
    · contradiction
    · rename_i noload hnoload
      injection h with h
      subst h
      obtain ⟨ga, hga, ⟨ba, hba, hfa⟩, hblka⟩ := blocks_writeSingleSegment cx hs hk seg _ false alloc halloc
      obtain ⟨gn, hgn, ⟨bn, hbn, hfn⟩, hblkn⟩ := blocks_writeSingleSegment cx hs hk seg _ true noload hnoload
      refine ⟨ga ++ gn, by simp [hga, hgn], ⟨ba, bn, hba, hbn, ?_⟩, ?_⟩
      · simp only [List.flatMap_append, List.filter_append, hfa, hfn, List.flatten_append]
      · refine blocks_sub_shape V _ _ alloc noload (endSections cx []) ga gn hV ?_ ?_ hblka hblkn (endSections_noHdr cx [])
        · intro l hl
          split at hl
          · split at hl <;> simp at hl
            rcases hl with rfl | rfl <;> rfl
          · simp at hl
        · intro l hl
          split at hl <;> simp at hl
          rcases hl with rfl | rfl <;> rfl


/-! ### the generated scripts have the shape `two_step_document_same_order` asks for -/

theorem filter_singletons (f : Str → Line) (hf : ∀ s, isInputB (f s) = true) : ∀ (l : List Str),
    ((l.map fun s => [f s]).flatten).filter isInputB = l.map f := by
  intro l
  induction l with
  | nil => rfl
  | cons a as ih => simp only [List.map_cons, List.flatten_cons, List.filter_append, ih]; simp [hf a]

theorem mapE_unique {α β ε} (f : α → Except ε β) (l : List α) (a b : List β) (ha : mapE f l = .ok a) (hb : mapE f l = .ok b) : a = b := by
  rw [ha] at hb
  injection hb

theorem chunks_partialSegments (d : Document) (o : Opts) (vc : Bool) (folder : Str) (esc : Opts → Str → Except ErrKind Str) :
    ∀ (l : List Segment) (em : List Str) (mainLs : List Line) (em' : List Str) (ps : List (Str × List Line)),
      partialSegments d o vc folder esc em l = .ok (mainLs, em', ps) → Chunks mainLs := by
  intro l
  induction l with
  | nil => intro em mainLs em' ps h; simp [partialSegments] at h; obtain ⟨rfl, _, _⟩ := h; exact Chunks.nil
  | cons seg rest ih =>
    intro em mainLs em' ps h
    unfold partialSegments at h
    split at h
    · exact ih em mainLs em' ps h
    · split at h
      · contradiction
      · split at h
        · contradiction
        · rename_i a em1 ha
          split at h
          · contradiction
          · rename_i b em2 ps2 hb
            injection h with h
            simp only [Prod.mk.injEq] at h
            rw [← h.1]
            exact (chunks_addSegment _ em _ a em1 ha).append (ih em1 b em2 ps2 hb)

/-- the scripts of one emitted segment, as `SegScripts`: the partial object the main script names,
the segment's wildcard flag, and the output sections `gs` of its partial script. -/
def scriptsOf (base q : Str) (seg : Segment) (gs : List (Str × List Line)) : SegScripts :=
  ⟨display (pathPush base q), seg.wildcardSections, gs⟩

/-- **what partial mode and ordinary mode generate for the same segments** (`qOf` names the
expansion of every partial-object path, `base` that of `base_path`): there is one `SegScripts`
per emitted segment such that
* the output sections of its partial script are its groups — the segment's allocatable and noload
  sections in list order;
* the input statements of the main script's segment part are, segment by segment, one statement
  for the partial object per group, with the segment's wildcard flag;
* the input statements of the ordinary script's segment part are those of the groups. -/
theorem generated_shape (d : Document) (o : Opts) (vc : Bool) (folder : Str) (esc : Opts → Str → Except ErrKind Str)
    (base : Str) (hb : esc o d.settings.basePath = .ok base) (qOf : Segment → Str) :
    ∀ (l : List Segment) (em : List Str) (mainLs : List Line) (em' : List Str) (ps : List (Str × List Line)),
      partialSegments d o vc folder esc em l = .ok (mainLs, em', ps) →
      (∀ seg ∈ l, shouldEmit o seg.cond = true → esc o (pathPush folder (seg.name ++ c!".o")) = .ok (qOf seg)) →
      ∀ (em0 : List Str) (ordLs : List Line) (em0' : List Str),
        addSegments { d := d, o := o, esc := esc } em0 l = .ok (ordLs, em0') →
        ∃ segs : List SegScripts,
          ps.map (fun p => blocksOf p.2) = segs.map (·.groups) ∧
          segs.map (fun s => (s.obj, s.wild, s.groups.map (·.1)))
            = (l.filter fun seg => shouldEmit o seg.cond).map (fun seg =>
                (display (pathPush base (qOf seg)), seg.wildcardSections, seg.allocSections ++ seg.noloadSections)) ∧
          mainLs.filter isInputB = segs.flatMap (·.mainStmts) ∧
          ordLs.filter isInputB = (segs.flatMap (·.body)).filter isInputB := by
  intro l
  induction l with
  | nil =>
    intro em mainLs em' ps h _ em0 ordLs em0' ho
    simp [partialSegments] at h
    simp [addSegments] at ho
    obtain ⟨rfl, _, rfl⟩ := h
    obtain ⟨rfl, _⟩ := ho
    exact ⟨[], rfl, rfl, rfl, rfl⟩
  | cons seg rest ih =>
    intro em mainLs em' ps h hq em0 ordLs em0' ho
    have hqr : ∀ s ∈ rest, shouldEmit o s.cond = true → esc o (pathPush folder (s.name ++ c!".o")) = .ok (qOf s) :=
      fun s hs => hq s (List.mem_cons_of_mem _ hs)
    unfold addSegments at ho
    split at ho
    · contradiction
    · rename_i x e1 hx
      split at ho
      · contradiction
      · rename_i y e2 hy
        injection ho with ho
        simp only [Prod.mk.injEq] at ho
        by_cases hinc : shouldEmit o seg.cond = true
        · -- an emitted segment
          unfold partialSegments at h
          simp only [hinc, Bool.not_true, Bool.false_eq_true, if_false] at h
          split at h
          · contradiction
          · rename_i sub hsub
            split at h
            · contradiction
            · rename_i a em1 ha
              split at h
              · contradiction
              · rename_i b em2 ps2 hbb
                injection h with h
                simp only [Prod.mk.injEq] at h
                obtain ⟨segs, hP, hS, hM, hO⟩ := ih em1 b em2 ps2 hbb hqr e1 y e2 hy
                -- the partial script
                obtain ⟨gs, hnames, ⟨bap, bnp, hbap, hbnp, hgsin⟩, hblk⟩ :=
                  blocks_partial_script { d := d, o := o, emitKindSyms := false, emitSecSyms := false, esc := esc } rfl rfl seg
                    (versionComment vc) sub (by
                      intro l hl
                      unfold versionComment at hl
                      split at hl <;> simp at hl
                      rcases hl with rfl | rfl <;> rfl) hsub
                -- the main script
                obtain ⟨bam, bnm, hbam, hbnm, hain⟩ := inputs_addSegment { d := d, o := o, refPartial := true, esc := esc } em
                  (partialSegment folder seg) a em1 ha hinc
                have hqs := hq seg List.mem_cons_self hinc
                have hmain : ∀ (secs : List Str), mapE (fun sec => emitSection { d := d, o := o, refPartial := true, esc := esc }
                    (partialSegment folder seg) sec secs) secs
                    = .ok (secs.map fun sec => [mainStmt (display (pathPush base (qOf seg))) seg.wildcardSections sec]) := by
                  intro secs
                  apply mapE_ok_map
                  intro sec _
                  exact main_places_partial_object d o esc folder seg sec secs base (qOf seg) hb hqs
                have e1' := mapE_unique _ _ _ _ hbam (hmain seg.allocSections)
                have e2' := mapE_unique _ _ _ _ hbnm (hmain seg.noloadSections)
                -- the ordinary script
                obtain ⟨bao, bno, hbao, hbno, hxin⟩ := inputs_addSegment { d := d, o := o, esc := esc } em0 seg x e1 hx hinc
                have hsame : ∀ sec secs, emitSection { d := d, o := o, emitKindSyms := false, emitSecSyms := false, esc := esc } seg sec secs
                    = emitSection { d := d, o := o, esc := esc } seg sec secs := fun sec secs => same_statements d o esc seg sec secs
                simp only [hsame] at hbap hbnp
                have e3 := mapE_unique _ _ _ _ hbap hbao
                have e4 := mapE_unique _ _ _ _ hbnp hbno
                refine ⟨scriptsOf base (qOf seg) seg gs :: segs, ?_, ?_, ?_, ?_⟩
                · rw [← h.2.2]
                  simp only [List.map_cons, hblk, hP]
                  rfl
                · simp only [List.filter_cons, hinc, if_true, List.map_cons, hS]
                  congr 1
                  simp only [scriptsOf, hnames]
                · rw [← h.1]
                  simp only [List.filter_append, hM, List.flatMap_cons, hain, e1', e2']
                  congr 1
                  unfold SegScripts.mainStmts scriptsOf
                  simp only
                  have : gs.map (fun g => mainStmt (display (pathPush base (qOf seg))) seg.wildcardSections g.1)
                      = (gs.map (·.1)).map (mainStmt (display (pathPush base (qOf seg))) seg.wildcardSections) := by
                    rw [List.map_map]; rfl
                  rw [this, hnames]
                  rw [List.flatten_append, List.filter_append, filter_singletons _ (fun _ => rfl), filter_singletons _ (fun _ => rfl),
                    List.map_append]
                · rw [← ho.1]
                  simp only [List.filter_append, hO, List.flatMap_cons, hxin]
                  congr 1
                  unfold SegScripts.body scriptsOf
                  simp only
                  rw [hgsin, e3, e4]
        · -- an excluded segment: nothing in either script
          have hf : shouldEmit o seg.cond = false := by
            cases hh : shouldEmit o seg.cond
            · rfl
            · exact absurd hh hinc
          unfold partialSegments at h
          simp only [hf, Bool.not_false, if_true] at h
          have hx' := excluded_addSegment { d := d, o := o, esc := esc } em0 seg hf
          rw [hx'] at hx
          injection hx with hx
          simp only [Prod.mk.injEq] at hx
          obtain ⟨segs, hP, hS, hM, hO⟩ := ih em mainLs em' ps h hqr e1 y e2 hy
          refine ⟨segs, hP, ?_, hM, ?_⟩
          · simp only [List.filter_cons, hf, Bool.false_eq_true, if_false]
            exact hS
          · rw [← ho.1, ← hx.1]
            exact hO


theorem takeSeq_filter (objs : List InSec) : ∀ (B : List Line) (t : List InSec),
    takeSeq objs t (B.filter isInputB) = takeSeq objs t B := by
  intro B
  induction B with
  | nil => intro t; rfl
  | cons a as ih =>
    intro t
    cases a <;> simp only [List.filter_cons, isInputB, if_true, Bool.false_eq_true, if_false, takeSeq, ih]

theorem zip_blocks : ∀ (segs : List SegScripts) (ps : List (Str × List Line)),
    ps.map (fun p => blocksOf p.2) = segs.map (·.groups) →
    (List.zipWith (fun (s : SegScripts) (p : Str × List Line) => (s.obj, p.2)) segs ps).map (fun p => (p.1, blocksOf p.2))
      = segs.map fun s => (s.obj, s.groups) := by
  intro segs
  induction segs with
  | nil => intro ps _; simp
  | cons s ss ih =>
    intro ps h
    cases ps with
    | nil => simp at h
    | cons p pp =>
      simp only [List.map_cons, List.cons.injEq] at h
      simp only [List.zipWith_cons_cons, List.map_cons, h.1, ih pp h.2]

/-- **C11, two-step clause, for the scripts the writer generates.** `partialSegments` is what
partial mode writes for the segment list `l` (the segment part `mainLs` of the main script and
one partial script per emitted segment), `addSegments` what ordinary mode writes (`ordLs`).
Then there is a description `segs` of the emitted segments — partial object, wildcard flag,
section groups = the segment's allocatable and noload sections — such that, whenever
* the section names of every emitted segment are pairwise different and no group's pattern
  matches the name of a later group of the same segment (`SegScripts.ok`),
* the partial objects have pairwise different paths, and
* no input section is selectable by the statements of two segments,
linking every partial script relocatably into its partial object and then the main script
puts the input sections in exactly the order of the one-step link of the ordinary script —
for every table of input sections. (Hypotheses: `base_path` and the partial-object paths expand.) -/
theorem generated_two_step (objs : List InSec) (d : Document) (o : Opts) (vc : Bool) (folder : Str)
    (esc : Opts → Str → Except ErrKind Str) (base : Str) (hb : esc o d.settings.basePath = .ok base) (qOf : Segment → Str)
    (l : List Segment) (em : List Str) (mainLs : List Line) (em' : List Str) (ps : List (Str × List Line))
    (hpart : partialSegments d o vc folder esc em l = .ok (mainLs, em', ps))
    (hq : ∀ seg ∈ l, shouldEmit o seg.cond = true → esc o (pathPush folder (seg.name ++ c!".o")) = .ok (qOf seg))
    (em0 : List Str) (ordLs : List Line) (em0' : List Str)
    (hord : addSegments { d := d, o := o, esc := esc } em0 l = .ok (ordLs, em0')) :
    ∃ segs : List SegScripts,
      segs.map (fun s => (s.obj, s.wild, s.groups.map (·.1)))
        = (l.filter fun seg => shouldEmit o seg.cond).map (fun seg =>
            (display (pathPush base (qOf seg)), seg.wildcardSections, seg.allocSections ++ seg.noloadSections)) ∧
      ((∀ s ∈ segs, s.ok) → (segs.map (·.obj)).Nodup →
        segs.Pairwise (fun a b => ∀ i ∈ objs, selectable a.body i = true → selectable b.body i = false) →
        twoStep objs (List.zipWith (fun (s : SegScripts) (p : Str × List Line) => (s.obj, p.2)) segs ps) mainLs
          = oneStep objs ordLs) := by
  obtain ⟨segs, hP, hS, hM, hO⟩ := generated_shape d o vc folder esc base hb qOf l em mainLs em' ps hpart hq em0 ordLs em0' hord
  refine ⟨segs, hS, ?_⟩
  intro hok hobj hdisj
  have hcm := chunks_partialSegments d o vc folder esc l em mainLs em' ps hpart
  have hbo := blockInputs_addSegments { d := d, o := o, esc := esc } l em0 ordLs em0' hord
  have hbm : blockInputs false mainLs = mainLs.filter isInputB := by
    have := blockInputs_chunks hcm []
    simpa [blockInputs] using this
  refine two_step_document_same_order objs segs _ mainLs ordLs (zip_blocks segs ps hP) (hbm.trans hM) (plain_of_chunks hcm) ?_ hbo.2
    hok hobj hdisj
  rw [hbo.1, hO, takeSeq_filter]

end Slinky.C11
