/-
  C03 in the image `Ld.link` returns: a segment with `fixed_vram: v` has its output section
  recorded at `v` — for the whole ordinary script of a document, not only in the state behind
  the segment.

  `segment_image` (Props/ImageDoc.lean) says where the allocatable output section of one segment
  opens, in terms of the value the address expression has *when the header is reached*.  For the
  literal of `fixed_vram` that value is the number itself (`C03.operand_fixed_vram`) as long as
  nobody has assigned a symbol spelled like the literal; `Ld.execK_keeps` carries "nobody has" from
  the `--defsym` table through every evaluation of the script, so the only hypotheses left are
  decidable facts about the text: the script assigns no symbol spelled `0x%08X` of `v`, and no
  `--defsym` is spelled so.
-/
import Props.Final
import Props.C04Final
import Props.C03Hex
namespace Slinky.C03
open Slinky W Ld

/-- a name nobody has assigned stays unassigned. -/
theorem execK_none (objs : List InSec) (n : Str) (ls : List Line) (st : St) (k : List Line)
    (h0 : lookupLast n st.syms = none) (hc : assignCount n ls = 0) : lookupLast n (execK objs st ls k).syms = none := by
  rw [execK_keeps_count objs n ls st k hc]; exact h0

theorem lookup_none_iff {β} (n : Str) : ∀ (l : List (Str × β)), lookup n l = none ↔ n ∉ l.map (·.1) := by
  intro l
  induction l with
  | nil => simp [lookup]
  | cons a r ih =>
    obtain ⟨k, v⟩ := a
    simp only [lookup, List.map_cons, List.mem_cons, not_or]
    by_cases h : k = n
    · subst h; simp
    · simp only [h, if_false, ih]
      constructor
      · intro hr; exact ⟨fun e => h e.symm, hr⟩
      · intro hr; exact hr.2

theorem lookupLast_none_iff {β} (n : Str) (l : List (Str × β)) : lookupLast n l = none ↔ n ∉ l.map (·.1) := by
  unfold lookupLast
  rw [lookup_none_iff]
  simp [List.map_reverse]

/-- what an evaluation leaves to the next one names only what it held. -/
theorem carry_none (st : St) (n : Str) (h : lookupLast n st.syms = none) : lookupLast n (carry st) = none := by
  rw [lookupLast_none_iff] at h ⊢
  unfold carry
  simp only [List.map_map, Function.comp_def, List.map_id']
  intro hm
  exact h ((mem_dedup _ _).1 hm)

/-- a name that neither the `--defsym` table nor the script defines is undefined at the start of
every evaluation. -/
theorem passes_none (objs : List InSec) (ls : List Line) (ds : List (Str × Val)) (n : Str)
    (hd : lookupLast n ds = none) (hc : assignCount n ls = 0) : ∀ k, lookupLast n (passes objs ls ds k).syms = none := by
  intro k
  induction k with
  | zero =>
    simp only [passes, pass, exec_eq_execK]
    exact execK_none objs n ls _ [] hd hc
  | succ k ih =>
    simp only [passes, pass, exec_eq_execK]
    exact execK_none objs n ls _ [] (carry_none _ n ih) hc

/-- the statements of `write_segment` begin with the kind start symbol. -/
theorem writeSegment_kindStart (cx : Ctx) (seg : Segment) (secs : List Str) (nl : Bool) (ls : List Line)
    (h : writeSegment cx seg secs nl = .ok ls) : ∃ rest, ls = kindStart cx seg nl ++ rest := by
  unfold writeSegment at h
  split at h
  · contradiction
  · injection h with h
    exact ⟨_, by rw [← h]; simp only [segmentStart, List.append_assoc]; rfl⟩

/-- **where the output sections of the segments with `fixed_vram` are recorded**, behind all
segments: each emitted segment with `fixed_vram: v` and an allocatable section has a record
`.<segment>` at address `v` — when the symbol table the segments are reached with holds no symbol
spelled like the literal and their statements assign none. -/
theorem segments_fixed_vram (objs : List InSec) (cx : Ctx) (hsy : cx.emitSecSyms = true) :
    ∀ (segs : List Segment) (em : List Str) (ls : List Line) (em' : List Str)
      (_ : addSegments cx em segs = .ok (ls, em'))
      (_ : ∀ s ∈ segs, shouldEmit cx.o s.cond = true → s.allocSections ≠ [])
      (st : St) (_ : Outside st) (r : Nat) (_ : lookupLast romPos st.syms = some (.num r)) (k : List Line)
      (seg : Segment) (v : Nat) (_ : seg ∈ segs) (_ : shouldEmit cx.o seg.cond = true) (_ : seg.fixedVram = some v)
      (_ : lookupLast (c!"0x" ++ toHex8 v) st.syms = none) (_ : assignCount (c!"0x" ++ toHex8 v) ls = 0),
      ∃ o ∈ (execK objs st ls k).secs, o.name = c!"." ++ seg.name ∧ o.addr = v ∧ o.noload = false := by
  intro segs
  induction segs with
  | nil => intro em ls em' _ _ st _ r _ k seg v hm; cases hm
  | cons sg rest ih =>
    intro em ls em' h hall st ho r hr k seg v hm hinc hfv hno hcnt
    simp only [addSegments] at h
    split at h
    · contradiction
    · rename_i a em1 hadd
      split at h
      · contradiction
      · rename_i b em2 hrest
        injection h with h
        simp only [Prod.mk.injEq] at h
        obtain ⟨rfl, _⟩ := h
        rw [assignCount_append] at hcnt
        rw [execK_append]
        unfold addSegment at hadd
        split at hadd
        · -- `sg` is excluded: nothing is written, so `seg` is among the rest
          rename_i hx
          injection hadd with hadd
          simp only [Prod.mk.injEq] at hadd
          obtain ⟨rfl, rfl⟩ := hadd
          have hex : shouldEmit cx.o sg.cond = false := by
            cases hh : shouldEmit cx.o sg.cond
            · rfl
            · simp [hh] at hx
          rcases List.mem_cons.1 hm with rfl | hm'
          · rw [hex] at hinc; cases hinc
          · simpa [execK] using ih _ _ _ hrest (fun s hs => hall s (List.mem_cons_of_mem _ hs)) st ho r hr k seg v hm' hinc hfv hno (by omega)
        · rename_i hinc'
          have hem : shouldEmit cx.o sg.cond = true := by
            cases hh : shouldEmit cx.o sg.cond
            · simp [hh] at hinc'
            · rfl
          split at hadd
          · contradiction
          · rename_i cls em3 hcp
            split at hadd
            · contradiction
            · rename_i alloc halloc
              split at hadd
              · contradiction
              · rename_i noload hnoload
                injection hadd with hadd
                simp only [Prod.mk.injEq] at hadd
                obtain ⟨rfl, rfl⟩ := hadd
                have hcls : ∀ l ∈ cls, OuterLine l ∧ symOf l ≠ some romPos := by
                  unfold classPart at hcp
                  split at hcp
                  · injection hcp with hcp; simp only [Prod.mk.injEq] at hcp; obtain ⟨rfl, _⟩ := hcp
                    intro l hl; cases hl
                  · split at hcp
                    · contradiction
                    · rename_i vc _
                      split at hcp
                      · injection hcp with hcp; simp only [Prod.mk.injEq] at hcp; obtain ⟨rfl, _⟩ := hcp
                        intro l hl; cases hl
                      · injection hcp with hcp; simp only [Prod.mk.injEq] at hcp; obtain ⟨rfl, _⟩ := hcp
                        exact classIntro_outer cx _ vc
                obtain ⟨aS, aE, al, dN, st1, lmaV, e1, o1, _, haddr, _, _, _, _, r1, _, _, hsec1, _⟩ :=
                  segment_image objs cx sg cls alloc noload hcls halloc hnoload
                    (hall sg List.mem_cons_self hem) hsy st ho r hr (b ++ k)
                rw [← e1]
                rcases List.mem_cons.1 hm with rfl | hm'
                · -- this is the segment: its section opens at the value of the literal
                  generalize hlit : c!"0x" ++ toHex8 v = lit at *
                  have hseg0 : assignCount lit (segmentLines cx seg cls alloc noload) = 0 := by omega
                  have hnone := assignCount_zero hseg0
                  have hsegA : segAddr cx seg = some lit := by
                    unfold segAddr; simp [hfv, hlit]
                  obtain ⟨st₁, _, _, hkeep, hv⟩ := haddr lit hsegA
                  have hne1 : lit ≠ romPos := by
                    rw [← hlit]; intro e
                    have := congrArg List.head? e
                    simp [romPos] at this
                  obtain ⟨restA, hA⟩ := writeSegment_kindStart cx seg seg.allocSections false alloc halloc
                  have hmem : ∀ l, l ∈ cls ∨ l ∈ alloc ∨
                      l = linkerSym (cx.d.settings.style.segRomStart seg.name) (.sym c!"__romPos") ∨
                      l = linkerSym (cx.d.settings.style.segVramStart seg.name) (.addr (c!"." ++ seg.name)) →
                      l ∈ segmentLines cx seg cls alloc noload := by
                    intro l hl
                    rw [segmentLines_eq]
                    simp only [List.mem_append, List.mem_cons, List.mem_nil_iff, or_false]
                    rcases hl with hl | hl | hl | hl
                    · exact Or.inl (Or.inl (Or.inl (Or.inl (Or.inl (Or.inl (Or.inl hl))))))
                    · exact Or.inl (Or.inl (Or.inl (Or.inl (Or.inr hl))))
                    · exact Or.inl (Or.inl (Or.inl (Or.inl (Or.inl (Or.inr (Or.inl hl))))))
                    · exact Or.inl (Or.inl (Or.inl (Or.inl (Or.inl (Or.inr (Or.inr hl))))))
                  have hk := hkeep lit hne1
                    (fun l hl => hnone l (hmem l (Or.inl hl)))
                    (fun e => hnone _ (hmem _ (Or.inr (Or.inr (Or.inl rfl))))
                      (by rw [e]; exact Slinky.C04.symOf_linkerSym _ _ (endsOk_ne_dot _ (segRomStart_ok _ _))))
                    (fun e => hnone _ (hmem _ (Or.inr (Or.inr (Or.inr rfl))))
                      (by rw [e]; exact Slinky.C04.symOf_linkerSym _ _ (endsOk_ne_dot _ (segVramStart_ok _ _))))
                    (fun l hl => hnone l (hmem l (Or.inr (Or.inl (by rw [hA]; exact List.mem_append_left _ hl)))))
                  have hop : operand st₁ lit = some v := by
                    rw [← hlit]; exact operand_fixed_vram st₁ v (by rw [hlit, hk]; exact hno)
                  rw [hop] at hv
                  simp only [Option.getD_some] at hv
                  obtain ⟨extra, hx⟩ := execK_secs objs b st1 k
                  exact ⟨_, by rw [hx]; exact List.mem_append_left _ hsec1, rfl, hv, rfl⟩
                · -- a later segment: the literal is still nobody's name behind this one
                  have hno1 : lookupLast (c!"0x" ++ toHex8 v) st1.syms = none := by
                    rw [e1]; exact execK_none objs _ _ st (b ++ k) hno (by omega)
                  exact ih _ _ _ hrest (fun s hs => hall s (List.mem_cons_of_mem _ hs)) st1 o1 _ r1 k seg v hm' hinc hfv hno1 (by omega)

/-- **C03 in the linked image, for the whole ordinary script of a document: `fixed_vram`.**
For every document in multi-segment mode whose emitted segments have an allocatable section,
every option set, object table and `--defsym` table: in the image `Ld.link` computes for the
script slinky generates, every emitted segment with `fixed_vram: v` has an output section
`.<segment>` at address `v` — provided neither the script nor the `--defsym` table defines a
symbol spelled like the literal `0x%08X` of `v` (then the literal would name that symbol). -/
theorem final_fixed_vram (objs : List InSec) (d : Document) (o : Opts) (vc : Bool) (script : List Line)
    (hmulti : d.settings.singleSegmentMode = false)
    (h : generateNormal d o vc = .ok script)
    (hall : ∀ s ∈ d.segments, shouldEmit o s.cond = true → s.allocSections ≠ [])
    (defsyms : List (Str × Nat))
    (seg : Segment) (v : Nat) (hm : seg ∈ d.segments) (hinc : shouldEmit o seg.cond = true) (hfv : seg.fixedVram = some v)
    (hds : (c!"0x" ++ toHex8 v) ∉ defsyms.map (·.1))
    (hcnt : assignCount (c!"0x" ++ toHex8 v) script = 0) :
    ∃ os ∈ (link objs defsyms script).secs, os.name = c!"." ++ seg.name ∧ os.addr = v ∧ os.noload = false := by
  have hstart : lookupLast (c!"0x" ++ toHex8 v)
      (carry (passes objs script (defsyms.map fun kv => (kv.1, Val.num kv.2)) 1)) = none := by
    apply carry_none
    apply passes_none objs script _ _ _ hcnt
    rw [lookupLast_none_iff]
    simpa [List.map_map, Function.comp_def] using hds
  rw [link_eq]
  generalize carry _ = S0 at hstart ⊢
  unfold generateNormal at h
  split at h
  · contradiction
  · rename_i body hbody
    injection h with h
    subst h
    unfold addAllSegments at hbody
    simp only [hmulti, Bool.false_eq_true, if_false] at hbody
    split at hbody
    · contradiction
    · rename_i ls emitted hsegs
      injection hbody with hbody
      subst hbody
      generalize hcx : ({ d := d, o := o } : Ctx) = cx at *
      have hd : cx.d = d := by rw [← hcx]
      have ho' : cx.o = o := by rw [← hcx]
      have hsy : cx.emitSecSyms = true := by rw [← hcx]
      generalize hT : endSections cx emitted ++ topLevel d o = T
      have hform : versionComment vc ++ (beginSections cx ++ ls ++ endSections cx emitted) ++ topLevel d o
          = versionComment vc ++ (beginSections cx ++ (ls ++ T)) := by rw [← hT]; simp [List.append_assoc]
      rw [hform] at hcnt ⊢
      simp only [assignCount_append] at hcnt
      rw [execK_append, Slinky.C04.execK_quiet objs _ (Slinky.C04.versionComment_quiet vc)]
      rw [execK_append, execK_append]
      have hb : ∃ st1, st1 = execK objs { syms := S0 } (beginSections cx) (ls ++ T ++ []) ∧ Outside st1 ∧
          lookupLast Ld.romPos st1.syms = some (.num 0) := by
        refine ⟨_, rfl, ?_, ?_⟩
        · unfold beginSections
          cases cx.d.settings.hardcodedGpValue <;> simp [execK, step, setSym] <;> exact ⟨rfl, rfl⟩
        · unfold beginSections
          cases cx.d.settings.hardcodedGpValue <;> simp [execK, step, setSym, eval, lookupLast_snoc, lookupLast_snoc2, Ld.romPos]
      obtain ⟨st1, e1, o1, r1⟩ := hb
      have hno1 : lookupLast (c!"0x" ++ toHex8 v) st1.syms = none := by
        rw [e1]; exact execK_none objs _ _ _ _ hstart (by omega)
      rw [← e1]
      obtain ⟨os, hos, h1, h2, h3⟩ := segments_fixed_vram objs cx hsy d.segments [] ls emitted hsegs (by rw [ho']; exact hall)
        st1 o1 0 r1 (T ++ []) seg v hm (by rw [ho']; exact hinc) hfv hno1 (by omega)
      obtain ⟨extra, hx⟩ := execK_secs objs T (execK objs st1 ls (T ++ [])) []
      exact ⟨os, by simp only [imageOf]; rw [hx]; exact List.mem_append_left _ hos, h1, h2, h3⟩

/-- the hypotheses are met and the conclusion is about a real address: the example document of
`C04Final` has `boot` at `fixed_vram: 0x80000000`. -/
example : (match generateNormal C04.exDoc C04.exOpts false with
    | .ok script =>
      decide (assignCount (c!"0x" ++ toHex8 0x80000000) script = 0)
      && (link C04.exObjs [] script).secs.any (fun os => os.name = c!".boot" && os.addr = 0x80000000 && !os.noload)
    | .error _ => false) = true := by decide +kernel

end Slinky.C03
