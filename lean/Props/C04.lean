/-
  C04 — ROM positions are contiguous, ordered and exclude noload data.
-/
import Props.Writer
import Props.ImageDoc
namespace Slinky.C04
open Slinky W

theorem romPos_last : romPos.getLast? = some 's' := by decide

theorem ne_romPos {s : Str} (h : endsOk s) : s ≠ romPos := endsOk_ne s romPos h romPos_last

/-- nothing between the braces of an output section reads or writes the ROM counter. -/
theorem romView_inner {st : Style} {wild : Bool} {l : Line} (h : InnerLine st wild l) : romView l = none := by
  cases h with
  | body hb =>
    cases hb with
    | input => rfl
    | pad n => simp [romView, romPos]
    | offset nm => simp [romView, linkerSym, ne_romPos (linkerOffset_ok st nm)]
  | blank => rfl
  | alignDot a => simp [romView, alignSymbol, romPos]
  | gp off p h => simp [romView, romPos]
  | symDot s hs => simp [romView, linkerSym, ne_romPos hs]
  | symSize s a b hs => simp [romView, linkerSym, ne_romPos hs]

theorem filterMap_none {α β} (f : α → Option β) (l : List α) (h : ∀ x ∈ l, f x = none) : l.filterMap f = [] := by
  induction l with
  | nil => rfl
  | cons a as ih =>
    simp [List.filterMap_cons, h a List.mem_cons_self, ih (fun x hx => h x (List.mem_cons_of_mem _ hx))]

theorem kindStart_rom (cx : Ctx) (seg : Segment) (nl : Bool) : (kindStart cx seg nl).filterMap romView = [] := by
  unfold kindStart
  split
  · simp [romView, linkerSym, ne_romPos (segVramStart_ok _ _)]
  · rfl

theorem kindEnd_rom (cx : Ctx) (seg : Segment) (nl : Bool) : (kindEnd cx seg nl).filterMap romView = [] := by
  unfold kindEnd
  split
  · simp [romView, linkerSym, symEndSize, ne_romPos (segVramEnd_ok _ _), ne_romPos (segVramSize_ok _ _)]
  · rfl

/-- the ROM view of one output section of a segment is just its header. -/
theorem writeSegment_rom (cx : Ctx) (seg : Segment) (secs : List Str) (noload : Bool) (ls : List Line)
    (h : writeSegment cx seg secs noload = .ok ls) :
    ls.filterMap romView =
      [if noload then .hdr (c!"." ++ seg.name ++ c!".noload") true none
       else .hdr (c!"." ++ seg.name) false (some (cx.d.settings.style.segRomStart seg.name))] := by
  obtain ⟨body, hls, hbody⟩ := writeSegment_shape cx seg secs noload ls h
  subst hls
  simp only [List.filterMap_append]
  rw [filterMap_none romView body (fun x hx => romView_inner (hbody x hx)), kindEnd_rom]
  unfold segmentStart
  simp only [List.filterMap_append, kindStart_rom]
  cases noload <;> cases seg.fillValue <;> simp [romView]


theorem rv_read (s : Str) (h : endsOk s) : romView (linkerSym s (.sym c!"__romPos")) = some (.readRom s) := by
  have h1 : s ≠ romPos := ne_romPos h
  have h2 : (c!"__romPos" : Str) = romPos := rfl
  rw [h2]
  simp [romView, linkerSym, h1]
theorem rv_addr (s t : Str) (h : endsOk s) : romView (linkerSym s (.addr t)) = none := by
  simp [romView, linkerSym, ne_romPos h]
theorem rv_dot (s : Str) (h : endsOk s) : romView (linkerSym s .dot) = none := by
  simp [romView, linkerSym, ne_romPos h]
theorem rv_abs (s a b : Str) (h : endsOk s) : romView (linkerSym s (.absSub a b)) = none := by
  simp [romView, linkerSym, ne_romPos h]
theorem rv_alignRom (a : Nat) : romView (alignSymbol c!"__romPos" a) = some (.alignRom a) := by
  have h2 : (c!"__romPos" : Str) = romPos := rfl
  rw [h2]
  simp [romView, alignSymbol]
theorem rv_alignDot (a : Nat) : romView (alignSymbol c!"." a) = none := by
  simp [romView, alignSymbol, romPos]
theorem rv_add (t : Str) : romView (.addAssign c!"__romPos" (.sizeofE t)) = some (.addSize t) := by
  have h2 : (c!"__romPos" : Str) = romPos := rfl
  rw [h2]
  simp [romView]
theorem rv_max (s t : Str) (h : endsOk s) : romView (maxSelf s t) = none := by
  simp [romView, maxSelf, ne_romPos h]
theorem rv_blank : romView .blank = none := rfl

theorem findClass_mem (d : Document) (n : Str) (vc : VramClass) (h : findClass d n = some vc) : vc ∈ d.vramClasses := by
  unfold findClass at h
  have := List.mem_of_find?_eq_some h
  simpa using this

theorem classIntro_rom (cx : Ctx) (cn : Str) (vc : VramClass) (hfs : vc.fixedSymbol ≠ some romPos) :
    (classIntro cx cn vc).filterMap romView = [] := by
  apply filterMap_none
  intro l hl
  unfold classIntro at hl
  simp only [List.mem_append, List.mem_cons, List.mem_nil_iff, or_false] at hl
  rcases hl with hl | hl | hl
  · split at hl
    · simp at hl; subst hl
      simp [romView, linkerSym, ne_romPos (classStart_ok _ _)]
    · split at hl
      · rename_i fs hfs'
        simp at hl; subst hl
        have : fs ≠ romPos := fun he => hfs (by rw [hfs', he])
        simp [romView, linkerSym, ne_romPos (classStart_ok _ _), this]
      · simp only [List.mem_cons, List.mem_map] at hl
        rcases hl with hl | ⟨o, _, hl⟩
        · subst hl; simp [romView, linkerSym, ne_romPos (classStart_ok _ _)]
        · subst hl; simp [romView, maxSelf, ne_romPos (classStart_ok _ _)]
  · subst hl; simp [romView, linkerSym, ne_romPos (classEnd_ok _ _)]
  · subst hl; rfl

/-- **the ROM statements of one segment.** An emitted segment contributes exactly: the start
alignment of `__romPos` (if any), `ROM_START = __romPos`, the header of its allocatable part
with `AT(ROM_START)`, the `(NOLOAD)` header of its noload part without a load address,
`__romPos += SIZEOF(.name)` — the size of the *allocatable* part only — the end alignment (if
any) and `ROM_END = __romPos`; nothing else touches the ROM counter; an excluded segment
contributes nothing. -/
theorem addSegment_rom (cx : Ctx) (em : List Str) (seg : Segment) (ls : List Line) (em' : List Str)
    (hcls : ∀ vc ∈ cx.d.vramClasses, vc.fixedSymbol ≠ some romPos)
    (h : addSegment cx em seg = .ok (ls, em')) :
    ls.filterMap romView =
      if shouldEmit cx.o seg.cond then segmentRom cx.d.settings.style seg else [] := by
  unfold addSegment at h
  split at h
  · rename_i hx
    injection h with h
    simp only [Prod.mk.injEq] at h
    obtain ⟨h1, _⟩ := h
    subst h1
    have : shouldEmit cx.o seg.cond = false := by
      cases hh : shouldEmit cx.o seg.cond
      · rfl
      · simp [hh] at hx
    simp [this]
  · rename_i hinc
    have hs : shouldEmit cx.o seg.cond = true := by
      cases hh : shouldEmit cx.o seg.cond
      · simp [hh] at hinc
      · rfl
    split at h
    · contradiction
    · rename_i cls em1 hcp
      split at h
      · contradiction
      · rename_i alloc halloc
        split at h
        · contradiction
        · rename_i noload hnoload
          injection h with h
          simp only [Prod.mk.injEq] at h
          obtain ⟨h1, _⟩ := h
          subst h1
          have hclsR : cls.filterMap romView = [] := by
            unfold classPart at hcp
            split at hcp
            · injection hcp with hcp; simp only [Prod.mk.injEq] at hcp; rw [← hcp.1]; rfl
            · split at hcp
              · contradiction
              · rename_i vc hvc
                split at hcp
                · injection hcp with hcp; simp only [Prod.mk.injEq] at hcp; rw [← hcp.1]; rfl
                · injection hcp with hcp; simp only [Prod.mk.injEq] at hcp; rw [← hcp.1]
                  exact classIntro_rom cx _ vc (hcls vc (findClass_mem _ _ _ hvc))
          unfold segmentLines
          simp only [List.filterMap_append, hclsR, writeSegment_rom cx seg _ false alloc halloc,
            writeSegment_rom cx seg _ true noload hnoload, List.nil_append]
          simp only [hs, if_true, segmentRom]
          cases seg.segmentStartAlign <;> cases seg.segmentEndAlign <;> cases seg.vramClass <;>
            simp [symEndSize, List.filterMap_cons, rv_read _ (segRomStart_ok _ _), rv_read _ (segRomEnd_ok _ _),
              rv_addr _ _ (segVramStart_ok _ _), rv_dot _ (segVramEnd_ok _ _), rv_abs _ _ _ (segVramSize_ok _ _),
              rv_abs _ _ _ (segRomSize_ok _ _), rv_alignRom, rv_alignDot, rv_add, rv_max _ _ (classEnd_ok _ _), rv_blank]


/-- lifted over the segment list: the ROM view of everything `add_segment` writes is the
concatenation, in document order, of the ROM statements of the emitted segments. -/
theorem addSegments_rom (cx : Ctx) (hcls : ∀ vc ∈ cx.d.vramClasses, vc.fixedSymbol ≠ some romPos) :
    ∀ (segs : List Segment) (em : List Str) (ls : List Line) (em' : List Str),
      addSegments cx em segs = .ok (ls, em') →
      ls.filterMap romView = (segs.filter (fun s => shouldEmit cx.o s.cond)).flatMap (segmentRom cx.d.settings.style) := by
  intro segs
  induction segs with
  | nil =>
    intro em ls em' h
    simp [addSegments] at h
    obtain ⟨h1, _⟩ := h
    subst h1
    rfl
  | cons seg rest ih =>
    intro em ls em' h
    unfold addSegments at h
    split at h
    · contradiction
    · rename_i a em1 ha
      split at h
      · contradiction
      · rename_i b em2 hb
        injection h with h
        simp only [Prod.mk.injEq] at h
        rw [← h.1, List.filterMap_append, addSegment_rom cx em seg a em1 hcls ha, ih em1 b em2 hb]
        by_cases hs : shouldEmit cx.o seg.cond = true
        · simp [List.filter_cons, hs]
        · simp [List.filter_cons, hs]

/-- **the machine run.** Executing the ROM statements of a list of segments from position `r`
records, for every segment in order, `ROM_START` and `ROM_END` exactly as the documented
recurrence `chain` says — for every size the link may give `SIZEOF(.name)` — and loads every
allocatable part at its `ROM_START`, every noload part nowhere. -/
theorem run_chain (size : Str → Nat) (st : Style) :
    ∀ (segs : List Segment) (s0 : RomState),
      let fin := runRom size s0 (segs.flatMap (segmentRom st))
      fin.pos = (chain size s0.pos segs).2 ∧
      fin.syms = s0.syms ++ ((chain size s0.pos segs).1.flatMap fun x =>
          [(st.segRomStart x.1, x.2.1), (st.segRomEnd x.1, x.2.2)]) := by
  intro segs
  induction segs with
  | nil => intro s0; simp [runRom, chain]
  | cons seg rest ih =>
    intro s0
    simp only [List.flatMap_cons, runRom, List.foldl_append]
    have key : ∀ (s1 : RomState),
        (List.foldl (stepRom size) s1 (segmentRom st seg)).pos =
          (match seg.segmentEndAlign with
            | some a => alignUp ((match seg.segmentStartAlign with | some a => alignUp s1.pos a | none => s1.pos) + size (c!"." ++ seg.name)) a
            | none => (match seg.segmentStartAlign with | some a => alignUp s1.pos a | none => s1.pos) + size (c!"." ++ seg.name)) ∧
        (List.foldl (stepRom size) s1 (segmentRom st seg)).syms =
          s1.syms ++ [(st.segRomStart seg.name, (match seg.segmentStartAlign with | some a => alignUp s1.pos a | none => s1.pos)),
            (st.segRomEnd seg.name,
              (match seg.segmentEndAlign with
                | some a => alignUp ((match seg.segmentStartAlign with | some a => alignUp s1.pos a | none => s1.pos) + size (c!"." ++ seg.name)) a
                | none => (match seg.segmentStartAlign with | some a => alignUp s1.pos a | none => s1.pos) + size (c!"." ++ seg.name)))] := by
      intro s1
      unfold segmentRom
      cases seg.segmentStartAlign <;> cases seg.segmentEndAlign <;> simp [List.foldl, stepRom]
    have h1 := key s0
    have h2 := ih (List.foldl (stepRom size) s0 (segmentRom st seg))
    simp only [runRom] at h2
    rw [h1.1, h1.2] at h2
    constructor
    · rw [h2.1]; rfl
    · rw [h2.2]; simp [chain]
      cases seg.segmentStartAlign <;> cases seg.segmentEndAlign <;> simp


theorem beginSections_rom (cx : Ctx) : (beginSections cx).filterMap romView = [.init] := by
  unfold beginSections
  have h1 : romView (.assign c!"__romPos" (.hex 0) false false false) = some .init := by
    have h2 : (c!"__romPos" : Str) = romPos := rfl
    rw [h2]; simp [romView]
  have h3 : ∀ v, romView (.assign c!"_gp" (.hex8 v) false false false) = none := by
    intro v
    have : (c!"_gp" : Str) ≠ romPos := by decide
    simp [romView, this]
  cases cx.d.settings.hardcodedGpValue <;>
    simp only [List.filterMap_append, List.filterMap_cons, List.filterMap_nil, h1, h3, List.append_nil, List.nil_append] <;> rfl

theorem endSections_rom (cx : Ctx) (em : List Str) : (endSections cx em).filterMap romView = [] := by
  apply filterMap_none
  intro l hl
  unfold endSections at hl
  simp only [List.mem_append, List.mem_cons, List.mem_nil_iff, or_false, List.mem_map, List.mem_filter] at hl
  rcases hl with (((hl | hl) | hl) | hl) | hl
  · obtain ⟨n, _, rfl⟩ := hl
    simp [romView, linkerSym, ne_romPos (classSize_ok _ _)]
  · split at hl
    · simp at hl
    · simp only [List.mem_append, List.mem_map] at hl
      rcases hl with hl | ⟨x, _, rfl⟩
      · split at hl <;> simp at hl
        subst hl; rfl
      · rfl
  · split at hl
    · simp at hl
    · simp only [List.mem_append, List.mem_map] at hl
      rcases hl with hl | ⟨x, _, rfl⟩
      · split at hl <;> simp at hl
        subst hl; rfl
      · rfl
  · split at hl
    · simp only [List.mem_append, List.mem_cons, List.mem_nil_iff, or_false, List.mem_map] at hl
      rcases hl with (((hl | hl) | hl) | hl) | hl
      · split at hl <;> simp at hl
        subst hl; rfl
      · rcases hl with rfl | rfl <;> rfl
      · obtain ⟨x, _, rfl⟩ := hl; rfl
      · split at hl <;> simp at hl
        subst hl; rfl
      · subst hl; rfl
    · simp at hl
  · subst hl; rfl

/-- **C04, script level.** In a multi-segment script (ordinary, or the main script of partial
mode) the statements that touch the ROM counter, together with the headers of all output
sections of segments, are exactly: `__romPos = 0`, then the ROM statements of each emitted
segment in document order. In particular no statement ever adds the size of a noload part,
every noload part is `(NOLOAD)` without `AT`, every allocatable part has `AT(<its ROM start>)`. -/
theorem sections_rom (cx : Ctx) (hcls : ∀ vc ∈ cx.d.vramClasses, vc.fixedSymbol ≠ some romPos)
    (hm : cx.d.settings.singleSegmentMode = false) (ls : List Line) (h : addAllSegments cx = .ok ls) :
    ls.filterMap romView =
      .init :: (cx.d.segments.filter (fun s => shouldEmit cx.o s.cond)).flatMap (segmentRom cx.d.settings.style) := by
  unfold addAllSegments at h
  simp only [hm] at h
  split at h
  · contradiction
  split at h
  · contradiction
  · rename_i body em hb
    injection h with h
    subst h
    simp only [List.filterMap_append, beginSections_rom, endSections_rom, addSegments_rom cx hcls _ _ _ _ hb]
    simp


/-! ### in the linked image (the linker semantics `Slinkyv.Ld`) -/

open Ld in
/-- **C04, image clause**: linking a multi-segment script — `SECTIONS {`, `__romPos = 0x0;`,
then what `add_segment` writes for every segment — leaves, behind the last segment, the ROM
counter at the documented recurrence started from 0: every emitted segment (in document
order) loads at the previous ROM end rounded up to its start alignment and ends at that plus
the size of its allocatable output section, rounded up to its end alignment. The sizes are
those of the `.<segment>` output sections the link recorded (type not-noload); the noload
output sections contribute nothing. Holds for every object table and every initial symbol
table. -/
theorem image_rom_recurrence (objs : List InSec) (cx : Ctx) (hsy : cx.emitSecSyms = true)
    (segs : List Segment) (ls : List Line) (em' : List Str)
    (h : addSegments cx [] segs = .ok (ls, em'))
    (hall : ∀ s ∈ segs, shouldEmit cx.o s.cond = true → s.allocSections ≠ [])
    (defsyms : List (Str × Val)) (k : List Line) :
    ∃ (zs : List (Segment × Nat)) (st' : St),
      st' = execK objs { syms := defsyms } (beginSections cx ++ ls) k ∧
      zs.map (·.1) = segs.filter (fun s => shouldEmit cx.o s.cond) ∧
      lookupLast Ld.romPos st'.syms = some (.num (romFold 0 zs)) ∧
      ∀ sz ∈ zs, ∃ o ∈ st'.secs, o.name = c!"." ++ sz.1.name ∧ o.size = sz.2 ∧ o.noload = false := by
  rw [execK_append]
  have hb : ∃ st1, st1 = execK objs { syms := defsyms } (beginSections cx) (ls ++ k) ∧ Outside st1 ∧
      lookupLast Ld.romPos st1.syms = some (.num 0) := by
    refine ⟨_, rfl, ?_, ?_⟩
    · unfold beginSections
      cases cx.d.settings.hardcodedGpValue <;> simp [execK, step, setSym] <;> exact ⟨rfl, rfl⟩
    · unfold beginSections
      cases cx.d.settings.hardcodedGpValue <;> simp [execK, step, setSym, eval, lookupLast_snoc, lookupLast_snoc2, Ld.romPos]
  obtain ⟨st1, e1, o1, r1⟩ := hb
  rw [← e1]
  obtain ⟨zs, st', e, _, hz, hrom, hsecs, _⟩ := segments_rom_image objs cx hsy segs [] ls em' h hall st1 o1 0 r1 k
  exact ⟨zs, st', e, hz, hrom, hsecs⟩

end Slinky.C04
