import Props.Lemmas
namespace Slinky.C04
theorem placeholder : True := trivial
end Slinky.C04
