/-
  C18 — allowlisted sections survive, denied and unplaced sections are discarded.
-/
import Props.Lemmas
import Props.C17
namespace Slinky.C18
open Slinky

/-- the class-size symbols `end_sections` writes first. -/
def classSizes (cx : Ctx) (emitted : List Str) : List Line :=
  ((dedup (cx.d.vramClasses.map (·.name))).filter (· ∈ emitted)).map
    (fun n => linkerSym (cx.d.settings.style.classSize n)
      (.sub (cx.d.settings.style.classEnd n) (cx.d.settings.style.classStart n)))

theorem filter_map_nb {α} (f : α → Line) (l : List α) (hf : ∀ a, C17.nonBlank (f a) = true) :
    (l.map f).filter C17.nonBlank = l.map f := C17.filter_map_nonBlank f l hf

/-- **the tail of every script** (multi-segment, single-segment and partial sub-scripts all
end with `end_sections`): ignoring blank lines, after the class sizes come one single-entry
output section per `sections_allowlist` element, one per `sections_allowlist_extra` element,
then a `/DISCARD/` block iff the wildcard is on or the denylist is non-empty — holding the
denylist patterns and then `*(*)` iff the wildcard is on — and the closing brace of
`SECTIONS`. The discard block is the last thing inside `SECTIONS`. -/
theorem tail (cx : Ctx) (emitted : List Str) :
    ((endSections cx emitted).filter C17.nonBlank).map Line.renderBody
      = (classSizes cx emitted).map Line.renderBody ++ expectedTail cx.d.settings := by
  unfold endSections expectedTail classSizes
  simp only [List.filter_append, List.map_append, List.append_assoc]
  congr 1
  · rw [filter_map_nb _ _ (fun a => rfl)]
  · congr 1
    · split
      · rename_i h
        have : cx.d.settings.sectionsAllowlist = [] := by simpa using h
        simp [this]
      · simp only [List.filter_append]
        rw [filter_map_nb _ _ (fun a => rfl)]
        split <;> simp [List.filter, C17.nonBlank, List.map_map, Function.comp_def, Line.renderBody]
    · congr 1
      · split
        · rename_i h
          have : cx.d.settings.sectionsAllowlistExtra = [] := by simpa using h
          simp [this]
        · simp only [List.filter_append]
          rw [filter_map_nb _ _ (fun a => rfl)]
          split <;> simp [List.filter, C17.nonBlank, List.map_map, Function.comp_def, Line.renderBody]
      · split
        · simp only [List.filter_append, List.map_append]
          rw [filter_map_nb _ _ (fun a => rfl)]
          split <;> split <;>
            simp [List.filter, C17.nonBlank, List.map_map, Function.comp_def, Line.renderBody]
        · simp [List.filter, C17.nonBlank, Line.renderBody]

end Slinky.C18
