/-
  C18 — allowlisted sections survive, denied and unplaced sections are discarded.
-/
import Props.Lemmas
import Props.C17
import Props.ImageTail
namespace Slinky.C18
open Slinky

/-- the class-size symbols `end_sections` writes first. -/
def classSizes (cx : Ctx) (emitted : List Str) : List Line :=
  ((dedup (cx.d.vramClasses.map (·.name))).filter (· ∈ emitted)).map
    (fun n => linkerSym (cx.d.settings.style.classSize n)
      (.sub (cx.d.settings.style.classEnd n) (cx.d.settings.style.classStart n)))

theorem filter_map_nb {α} (f : α → Line) (l : List α) (hf : ∀ a, C17.nonBlank (f a) = true) :
    (l.map f).filter C17.nonBlank = l.map f := C17.filter_map_nonBlank f l hf

/-- **the tail of every script** (multi-segment, single-segment and partial sub-scripts all
end with `end_sections`): ignoring blank lines, after the class sizes come one single-entry
output section per `sections_allowlist` element, one per `sections_allowlist_extra` element,
then a `/DISCARD/` block iff the wildcard is on or the denylist is non-empty — holding the
denylist patterns and then `*(*)` iff the wildcard is on — and the closing brace of
`SECTIONS`. The discard block is the last thing inside `SECTIONS`. -/
theorem tail (cx : Ctx) (emitted : List Str) :
    ((endSections cx emitted).filter C17.nonBlank).map Line.renderBody
      = (classSizes cx emitted).map Line.renderBody ++ expectedTail cx.d.settings := by
  unfold endSections expectedTail classSizes
  simp only [List.filter_append, List.map_append, List.append_assoc]
  congr 1
  · rw [filter_map_nb _ _ (fun a => rfl)]
  · congr 1
    · split
      · rename_i h
        have : cx.d.settings.sectionsAllowlist = [] := by simpa using h
        simp [this]
      · simp only [List.filter_append]
        rw [filter_map_nb _ _ (fun a => rfl)]
        split <;> simp [List.filter, C17.nonBlank, List.map_map, Function.comp_def, Line.renderBody]
    · congr 1
      · split
        · rename_i h
          have : cx.d.settings.sectionsAllowlistExtra = [] := by simpa using h
          simp [this]
        · simp only [List.filter_append]
          rw [filter_map_nb _ _ (fun a => rfl)]
          split <;> simp [List.filter, C17.nonBlank, List.map_map, Function.comp_def, Line.renderBody]
      · split
        · simp only [List.filter_append, List.map_append]
          rw [filter_map_nb _ _ (fun a => rfl)]
          split <;> split <;>
            simp [List.filter, C17.nonBlank, List.map_map, Function.comp_def, Line.renderBody]
        · simp [List.filter, C17.nonBlank, Line.renderBody]


/-! ### in the linked image (the linker semantics `Slinkyv.Ld`) -/

open Ld in
/-- **C18, image clause for the allowlists**: a single-entry section `sec 0 : { *(sec); }`
places every input section of that name that nothing placed or discarded before in an output
section of that name, and takes nothing a segment placed. -/
theorem image_allowlisted_survive (objs : List InSec) (st : St) (sec addr : Str) (r : List Line) :
    (∀ i ∈ objs, i.sec = sec → isFree st i = true →
      ∃ p ∈ (step objs st (.singleEntry sec addr) r).placed, p.inp = i ∧ p.out = sec) ∧
    (∃ new, (step objs st (.singleEntry sec addr) r).placed = st.placed ++ new ∧
      ∀ p ∈ new, isFree st p.inp = true ∧ p.inp.sec = sec) :=
  ⟨single_entry_image objs st sec addr r, single_entry_only_free objs st sec addr r⟩

open Ld in
/-- **C18, image clause for `/DISCARD/`**: a pattern line discards exactly the matching input
sections that are still free — every free one for `*(*)` — and an input section that a segment
or an allowlist placed is not free, so it is never discarded. -/
theorem image_discard_only_unplaced (objs : List InSec) (st : St) (hd : st.inDiscard = true) (pat : Str) (r : List Line) :
    (step objs st (.discardPat pat) r).placed = st.placed ∧
    (∀ i ∈ objs, isFree st i = true → (pat = c!"*" ∨ i.sec = pat) → i ∈ (step objs st (.discardPat pat) r).discarded) ∧
    (∀ p ∈ st.placed, p.inp ∉ objs.filter (fun i => (pat = c!"*" || i.sec = pat) && isFree st i)) := by
  obtain ⟨h1, _, h3⟩ := discard_pat_image objs st hd pat r
  refine ⟨h1, h3, ?_⟩
  intro p hp hmem
  simp only [List.mem_filter, Bool.and_eq_true] at hmem
  have := placed_not_free st p hp
  rw [this] at hmem
  exact absurd hmem.2.2 (by simp)

end Slinky.C18
