/-
  C17, the text of the top-level statements — tied to the source text.

  lean/Src/Formats.lean is written by tools/extract_formats.py from the string literals of the
  *current* script_buffer.rs / linker_writer.rs on every run. The theorems say that what the
  model prints for `ENTRY`, `EXTERN`, `ASSERT`, the required-symbol pair, user symbol
  assignments and both `_gp` forms is `format!` of the template the code has now.
-/
import Src.Formats
import Props.C17
namespace Slinky.C17

theorem entry_src (e : Str) : (Line.entry e).renderBody = fmt Src.lw__add_entry_0 [.s e] := by
  simp [Line.renderBody, fmt, Src.lw__add_entry_0]

theorem extern_src (n : Str) : (Line.extern n).renderBody = fmt Src.sb__write_required_symbol_0 [.s n] := by
  simp [Line.renderBody, fmt, Src.sb__write_required_symbol_0]

theorem assert_src (c m : Str) : (Line.assertL c m).renderBody = fmt Src.sb__write_assert_0 [.s c, .s m] := by
  simp [Line.renderBody, fmt, Src.sb__write_assert_0]

/-- the two lines `topLevel` writes for a required symbol are `write_required_symbol`'s. -/
theorem required_symbol_src (n : Str) :
    [Line.extern n, Line.assertL (c!"DEFINED(" ++ n ++ c!")") (c!"Required symbol '" ++ n ++ c!"' was not linked")].map Line.renderBody
      = [fmt Src.sb__write_required_symbol_0 [.s n],
         fmt Src.sb__write_assert_0 [.s (fmt Src.sb__write_required_symbol_1 [.s n]),
                                     .s (fmt Src.sb__write_required_symbol_2 [.s n])]] := by
  simp [Line.renderBody, fmt, Src.sb__write_required_symbol_0, Src.sb__write_required_symbol_1,
    Src.sb__write_required_symbol_2, Src.sb__write_assert_0]

/-- a symbol assignment in each of the four `PROVIDE` / `HIDDEN` forms. -/
theorem assignment_src (s v : Str) (l : Bool) :
    (Line.assign s (.sym v) true true l).renderBody = fmt Src.sb__write_symbol_assignment_0 [.s s, .s v]
    ∧ (Line.assign s (.sym v) true false l).renderBody = fmt Src.sb__write_symbol_assignment_1 [.s s, .s v]
    ∧ (Line.assign s (.sym v) false true l).renderBody = fmt Src.sb__write_symbol_assignment_2 [.s s, .s v]
    ∧ (Line.assign s (.sym v) false false l).renderBody = fmt Src.sb__write_symbol_assignment_3 [.s s, .s v] := by
  simp [Line.renderBody, Expr.render, fmt, Src.sb__write_symbol_assignment_0, Src.sb__write_symbol_assignment_1,
    Src.sb__write_symbol_assignment_2, Src.sb__write_symbol_assignment_3]

/-- the hardcoded `_gp` of `begin_sections` and of `add_single_segment`. -/
theorem hardcoded_gp_src (v : Nat) :
    (Line.assign c!"_gp" (.hex8 v) false false false).renderBody = fmt Src.lw__begin_sections_2 [.n v]
    ∧ (Line.assign c!"_gp" (.hex8 v) false false false).renderBody = fmt Src.lw__add_single_segment_1 [.n v] := by
  simp [Line.renderBody, Expr.render, fmt, Src.lw__begin_sections_2, Src.lw__add_single_segment_1]

/-- the `_gp` of `gp_info`: the symbol name and the value `. + 0x{:X}` of the `i32` offset, in the
assignment form the entry asks for. -/
theorem gp_info_src (off : Int) (l : Bool) :
    (Line.assign c!"_gp" (.dotPlus (toHexI32 off)) false false l).renderBody
      = fmt Src.sb__write_symbol_assignment_3
          [.s (fmt Src.lw__write_section_symbol_start_2 []), .s (fmt Src.lw__write_section_symbol_start_3 [.i off])] := by
  simp [Line.renderBody, Expr.render, fmt, Src.sb__write_symbol_assignment_3, Src.lw__write_section_symbol_start_2,
    Src.lw__write_section_symbol_start_3]

/-- the functions this file reads have the number of literals the model was written against. -/
theorem counts_src : Src.lw__add_entry_count = 1 ∧ Src.sb__write_required_symbol_count = 3 ∧ Src.sb__write_assert_count = 1
    ∧ Src.sb__write_symbol_assignment_count = 4 ∧ Src.lw__begin_sections_count = 3 ∧ Src.lw__add_single_segment_count = 3
    ∧ Src.lw__write_section_symbol_start_count = 5 := by decide

end Slinky.C17
