/-
  C19 — generation never crashes; success means a script the linkers accept.
  The model is a set of total Lean functions whose only non-value outcome is
  `Fail.diverge` (recursion bound of the emitter exhausted); the former panic sites of the
  code are error values here as in the (repaired) implementation.
-/
import Props.Lemmas
namespace Slinky.C19
open Slinky

/-- the former `assert!(segments.len() == 1)`: single-segment mode with any other number of
segments is an error value. -/
theorem single_segment_count (cx : Ctx) (h : cx.d.settings.singleSegmentMode = true)
    (hn : cx.d.segments.length ≠ 1) : addAllSegments cx = .error (.err .invalidSegmentCount) := by
  unfold addAllSegments
  simp only [h, if_true]
  match hs : cx.d.segments with
  | [] => rfl
  | [_] => simp [hs] at hn
  | _ :: _ :: _ => rfl

/-- the former unbounded recursion: re-entering a section that the current chain of
sub-group descents already contains is reported as an error value at once. -/
theorem cycle_is_reported (cx : Ctx) (seg : Segment) (secs : List Str) (fuel : Nat) (f : FileInfo)
    (sec base : Str) (parents : List Str) (hinc : shouldEmit cx.o f.cond = true) (hc : sec ∈ parents) :
    emitEntry cx seg secs (fuel + 1) f sec base parents = .error (.err .cyclicSubgroups) := by
  unfold emitEntry
  simp [hinc, hc]

/-- an excluded entry returns at once, whatever its sections look like. -/
theorem excluded_returns (cx : Ctx) (seg : Segment) (secs : List Str) (fuel : Nat) (f : FileInfo)
    (sec base : Str) (parents : List Str) (hexc : shouldEmit cx.o f.cond = false) :
    emitEntry cx seg secs (fuel + 1) f sec base parents = .ok [] := by
  unfold emitEntry
  simp [hexc]

/-- a cyclic `sections_subgroups` table never reaches the emitter: the segment is rejected
when it is parsed. -/
theorem cyclic_subgroups_rejected (st : Settings) (s : SegmentS) (seg : Segment)
    (h : segmentRest st s = .ok seg) : hasSubgroupCycle seg.sectionsSubgroups = false := by
  unfold segmentRest segmentTail at h
  peel h
  all_goals first
    | contradiction
    | injection h with h
      subst h
      simp_all

/-! ### the recursion bound is never exhausted -/

theorem concatMapE_error {α β ε} (f : α → Except ε (List β)) (l : List α) (e : ε)
    (h : concatMapE f l = .error e) : ∃ a ∈ l, f a = .error e := by
  induction l with
  | nil => simp [concatMapE] at h
  | cons a as ih =>
    unfold concatMapE at h
    split at h
    · rename_i e' he
      injection h with h
      subst h
      exact ⟨a, List.mem_cons_self, he⟩
    · split at h
      · rename_i e' he
        injection h with h
        subst h
        obtain ⟨x, hx, hfx⟩ := ih he
        exact ⟨x, List.mem_cons_of_mem _ hx, hfx⟩
      · cases h

theorem depth_le_of_mem (c : FileInfo) (fs : List FileInfo) (h : c ∈ fs) :
    FileInfo.depth c ≤ FileInfo.depthList fs := by
  induction fs with
  | nil => simp at h
  | cons a as ih =>
    unfold FileInfo.depthList
    rcases List.mem_cons.1 h with h | h
    · subst h; exact Nat.le_max_left _ _
    · exact Nat.le_trans (ih h) (Nat.le_max_right _ _)

theorem depth_pos (f : FileInfo) : 1 ≤ FileInfo.depth f := by
  cases f; simp [FileInfo.depth]

theorem subgroupsOf_subset (seg : Segment) (k : Str) : ∀ o ∈ subgroupsOf seg k, o ∈ subgroupValues seg := by
  intro o ho
  unfold subgroupsOf at ho
  unfold subgroupValues
  generalize seg.sectionsSubgroups = m at ho ⊢
  induction m with
  | nil => simp [lookup] at ho
  | cons a as ih =>
    obtain ⟨k', v⟩ := a
    unfold lookup at ho
    by_cases hk : k' = k
    · simp [hk] at ho
      simp [ho]
    · simp [hk] at ho
      simp only [List.map_cons, List.flatten_cons, List.mem_append]
      exact Or.inr (ih ho)

/-- the chain of sections the emitter is nested in for one file: no repetition (the guard),
everything but the root of the chain is a sub-group section, and so is the current section
once the chain is non-empty. -/
def ChainInv (seg : Segment) (parents : List Str) (sec : Str) : Prop :=
  parents.Nodup ∧ (∀ p ∈ parents.dropLast, p ∈ subgroupValues seg) ∧ (parents ≠ [] → sec ∈ subgroupValues seg)

theorem chain_length (seg : Segment) (parents : List Str) (sec : Str) (h : ChainInv seg parents sec) :
    parents.length ≤ (subgroupValues seg).length + 1 := by
  have h1 : parents.dropLast.Nodup := List.Nodup.sublist (List.dropLast_sublist _) h.1
  have h2 := List.Nodup.length_le_of_subset h1 (fun p hp => h.2.1 p hp)
  simp only [List.length_dropLast] at h2
  omega

theorem chain_push (seg : Segment) (parents : List Str) (sec other k : Str)
    (h : ChainInv seg parents sec) (hn : sec ∉ parents) (ho : other ∈ subgroupsOf seg k) :
    ChainInv seg (sec :: parents) other := by
  refine ⟨List.nodup_cons.2 ⟨hn, h.1⟩, ?_, fun _ => subgroupsOf_subset seg k other ho⟩
  intro p hp
  cases parents with
  | nil => simp at hp
  | cons q qs =>
    simp only [List.dropLast_cons₂, List.mem_cons] at hp
    rcases hp with hp | hp
    · subst hp; exact h.2.2 (by simp)
    · exact h.2.1 p hp

/-- **the per-file emitter never exhausts its fuel**, provided the fuel covers the depth of
the entry times the longest possible chain. -/
theorem emitEntry_never_diverges (cx : Ctx) (seg : Segment) (secs : List Str) :
    ∀ (fuel : Nat) (f : FileInfo) (sec base : Str) (parents : List Str),
      ChainInv seg parents sec →
      FileInfo.depth f * ((subgroupValues seg).length + 2) ≤ fuel + parents.length →
      emitEntry cx seg secs fuel f sec base parents ≠ .error .diverge := by
  intro fuel
  induction fuel with
  | zero =>
    intro f sec base parents hinv hfuel
    have hl := chain_length seg parents sec hinv
    have hd := depth_pos f
    have : (subgroupValues seg).length + 2 ≤ FileInfo.depth f * ((subgroupValues seg).length + 2) :=
      Nat.le_mul_of_pos_left _ hd
    omega
  | succ n ih =>
    intro f sec base parents hinv hfuel h
    obtain ⟨p, kind, sf, pa, se, lo, so, fs, dir, c, keep⟩ := f
    rw [emitEntry] at h
    simp only [FileInfo.cond, FileInfo.sectionOrder, FileInfo.kind, FileInfo.path, FileInfo.keep, FileInfo.subfile,
      FileInfo.sect, FileInfo.padAmount, FileInfo.linkerOffsetName, FileInfo.dir, FileInfo.files] at h
    have hl := chain_length seg parents sec hinv
    by_cases hinc : shouldEmit cx.o c = true
    · simp only [hinc, Bool.not_true, Bool.false_eq_true, if_false] at h
      by_cases hp : sec ∈ parents
      · simp [hp] at h
      · simp only [hp, if_false] at h
        obtain ⟨k, _, hk⟩ := concatMapE_error _ _ _ h
        split at hk
        · -- the body (emit_file) failed with `diverge`
          rename_i e hbody
          injection hk with hk
          subst hk
          cases kind with
          | object => cases hq : cx.esc cx.o p <;> simp [hq, liftPath] at hbody
          | archive => cases hq : cx.esc cx.o p <;> simp [hq, liftPath] at hbody
          | pad => simp at hbody
          | linkerOffset => simp at hbody
          | group =>
            cases hq : cx.esc cx.o dir with
            | error e => simp [hq, liftPath] at hbody
            | ok d =>
              simp only [hq, liftPath] at hbody
              obtain ⟨child, hchild, hc⟩ := concatMapE_error _ _ _ hbody
              have hdc := depth_le_of_mem child fs hchild
              refine ih child k (pathPush base d) [] ⟨List.nodup_nil, by simp, by simp⟩ ?_ hc
              simp only [FileInfo.depth] at hfuel
              simp only [List.length_nil, Nat.add_zero]
              have h1 : FileInfo.depth child * ((subgroupValues seg).length + 2)
                  ≤ FileInfo.depthList fs * ((subgroupValues seg).length + 2) := Nat.mul_le_mul_right _ hdc
              have h2 : (FileInfo.depthList fs + 1) * ((subgroupValues seg).length + 2)
                  = FileInfo.depthList fs * ((subgroupValues seg).length + 2) + ((subgroupValues seg).length + 2) := by
                rw [Nat.add_mul, Nat.one_mul]
              omega
        · -- the sub-group expansion failed with `diverge`
          rename_i a ha
          split at hk
          · rename_i e hsubs
            injection hk with hk
            subst hk
            simp only [Bool.or_eq_true, Bool.and_eq_true, List.isEmpty_iff] at hsubs
            split at hsubs
            · cases hsubs
            · obtain ⟨other, hother, ho⟩ := concatMapE_error _ _ _ hsubs
              refine ih _ other base (sec :: parents) (chain_push seg parents sec other k hinv hp hother) ?_ ho
              simp only [List.length_cons]
              omega
          · cases hk
    · have hf : shouldEmit cx.o c = false := by
        cases hh : shouldEmit cx.o c
        · rfl
        · exact absurd hh hinc
      simp [hf] at h

theorem emitSection_never_diverges (cx : Ctx) (seg : Segment) (sec : Str) (secs : List Str) :
    emitSection cx seg sec secs ≠ .error .diverge := by
  intro h
  unfold emitSection at h
  cases hb : cx.esc cx.o cx.d.settings.basePath with
  | error e => simp [hb, liftPath] at h
  | ok b =>
    simp only [hb, liftPath] at h
    have key : ∀ base, concatMapE (fun file => emitEntry cx seg secs (fuelFor seg) file sec base []) seg.files
        ≠ .error .diverge := by
      intro base hc
      obtain ⟨file, hfile, hf⟩ := concatMapE_error _ _ _ hc
      refine emitEntry_never_diverges cx seg secs _ file sec base [] ⟨List.nodup_nil, by simp, by simp⟩ ?_ hf
      have := depth_le_of_mem file seg.files hfile
      simp only [fuelFor, subgroupValues, List.length_nil, Nat.add_zero]
      exact Nat.le_trans (Nat.mul_le_mul_right _ this) (Nat.le_succ _)
    by_cases hr : cx.refPartial = true
    · simp only [hr, if_true] at h
      exact key _ h
    · simp only [hr, if_false] at h
      cases hd : cx.esc cx.o seg.dir with
      | error e => simp [hd] at h
      | ok d =>
        simp only [hd] at h
        exact key _ h

theorem sectionLoop_error (f : Str → R (List Line)) (l : List Str) (e : Fail)
    (h : sectionLoop f l = .error e) : ∃ s ∈ l, f s = .error e := by
  induction l with
  | nil => simp [sectionLoop] at h
  | cons a as ih =>
    cases as with
    | nil => exact ⟨a, List.mem_cons_self, by simpa [sectionLoop] using h⟩
    | cons b bs =>
      simp only [sectionLoop] at h
      split at h
      · rename_i e' he
        injection h with h; subst h
        exact ⟨a, List.mem_cons_self, he⟩
      · split at h
        · rename_i e' he
          injection h with h; subst h
          obtain ⟨s, hs, hfs⟩ := ih he
          exact ⟨s, List.mem_cons_of_mem _ hs, hfs⟩
        · cases h

theorem writeSegment_never_diverges (cx : Ctx) (seg : Segment) (secs : List Str) (nl : Bool) :
    writeSegment cx seg secs nl ≠ .error .diverge := by
  intro h
  unfold writeSegment at h
  split at h
  · rename_i e he
    injection h with h; subst h
    obtain ⟨s, _, hs⟩ := sectionLoop_error _ _ _ he
    split at hs
    · rename_i e' he'
      injection hs with hs; subst hs
      exact emitSection_never_diverges cx seg s secs he'
    · cases hs
  · cases h

theorem writeSingleSegment_never_diverges (cx : Ctx) (seg : Segment) (secs : List Str) (nl : Bool) :
    writeSingleSegment cx seg secs nl ≠ .error .diverge := by
  intro h
  unfold writeSingleSegment at h
  split at h
  · rename_i e he
    injection h with h; subst h
    obtain ⟨s, _, hs⟩ := sectionLoop_error _ _ _ he
    split at hs
    · rename_i e' he'
      injection hs with hs; subst hs
      exact emitSection_never_diverges cx seg s secs he'
    · cases hs
  · cases h

theorem addSegment_never_diverges (cx : Ctx) (em : List Str) (seg : Segment) :
    addSegment cx em seg ≠ .error .diverge := by
  intro h
  unfold addSegment at h
  split at h
  · cases h
  · split at h
    · rename_i e he
      injection h with h; subst h
      unfold classPart at he
      repeat' (first | contradiction | split at he)
      all_goals cases he
    · split at h
      · rename_i e he
        injection h with h; subst h
        exact writeSegment_never_diverges _ _ _ _ he
      · split at h
        · rename_i e he
          injection h with h; subst h
          exact writeSegment_never_diverges _ _ _ _ he
        · cases h

theorem addSegments_never_diverges (cx : Ctx) : ∀ (segs : List Segment) (em : List Str),
    addSegments cx em segs ≠ .error .diverge := by
  intro segs
  induction segs with
  | nil => intro em h; simp [addSegments] at h
  | cons s rest ih =>
    intro em h
    unfold addSegments at h
    split at h
    · rename_i e he
      injection h with h; subst h
      exact addSegment_never_diverges _ _ _ he
    · split at h
      · rename_i e he
        injection h with h; subst h
        exact ih _ he
      · cases h

theorem addSingleSegment_never_diverges (cx : Ctx) (seg : Segment) :
    addSingleSegment cx seg ≠ .error .diverge := by
  intro h
  unfold addSingleSegment at h
  split at h
  · rename_i e he
    injection h with h; subst h
    exact writeSingleSegment_never_diverges _ _ _ _ he
  · split at h
    · rename_i e he
      injection h with h; subst h
      exact writeSingleSegment_never_diverges _ _ _ _ he
    · cases h

theorem addAllSegments_never_diverges (cx : Ctx) : addAllSegments cx ≠ .error .diverge := by
  intro h
  unfold addAllSegments at h
  split at h
  · split at h
    · exact addSingleSegment_never_diverges _ _ h
    · cases h
  · split at h
    · rename_i e he
      injection h with h; subst h
      exact addSegments_never_diverges _ _ _ he
    · cases h

theorem partialSegments_never_diverges (d : Document) (o : Opts) (vc : Bool) (folder : Str)
    (esc : Opts → Str → Except ErrKind Str) : ∀ (segs : List Segment) (em : List Str),
    partialSegments d o vc folder esc em segs ≠ .error .diverge := by
  intro segs
  induction segs with
  | nil => intro em h; simp [partialSegments] at h
  | cons s rest ih =>
    intro em h
    unfold partialSegments at h
    split at h
    · exact ih _ h
    · split at h
      · rename_i e he
        injection h with h; subst h
        exact addSingleSegment_never_diverges _ _ he
      · split at h
        · rename_i e he
          injection h with h; subst h
          exact addSegment_never_diverges _ _ _ he
        · split at h
          · rename_i e he
            injection h with h; subst h
            exact ih _ he
          · cases h

theorem mapE_error {α β} (f : α → R β) (l : List α) (e : Fail) (h : mapE f l = .error e) :
    ∃ a ∈ l, f a = .error e := by
  induction l with
  | nil => simp [mapE] at h
  | cons a as ih =>
    unfold mapE at h
    split at h
    · rename_i e' he
      injection h with h; subst h
      exact ⟨a, List.mem_cons_self, he⟩
    · split at h
      · rename_i e' he
        injection h with h; subst h
        obtain ⟨x, hx, hfx⟩ := ih he
        exact ⟨x, List.mem_cons_of_mem _ hx, hfx⟩
      · cases h

/-- **C19, model level: generation always returns.** For every document, every option map,
both modes: the outcome of `generate` is a success or an error *value* — the recursion bound
of the emitter is never exhausted (and the model has no other way not to return a value:
every function is total, the former panic sites are error values). -/
theorem never_diverges (d : Document) (o : Opts) (m : Mode) (vc : Bool) :
    generate d o m vc ≠ .error .diverge := by
  intro h
  unfold generate at h
  cases m with
  | normal =>
    simp only at h
    split at h
    · rename_i e he
      injection h with h; subst h
      unfold generateNormal at he
      split at he
      · rename_i e' he'
        injection he with he; subst he
        exact addAllSegments_never_diverges _ he'
      · cases he
    · split at h
      · rename_i e he
        injection h with h; subst h
        unfold mainDeps at he
        repeat' (first | contradiction | split at he)
        all_goals cases he
      · cases h
  | partialLink =>
    simp only at h
    split at h
    · rename_i e he
      injection h with h; subst h
      unfold generatePartial at he
      split at he
      · cases he
      · split at he
        · rename_i e' he'
          injection he with he; subst he
          exact partialSegments_never_diverges _ _ _ _ _ _ _ he'
        · cases he
    · split at h
      · rename_i e he
        injection h with h; subst h
        unfold mainDeps at he
        repeat' (first | contradiction | split at he)
        all_goals cases he
      · cases h

end Slinky.C19
