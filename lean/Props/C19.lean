/-
  C19 — generation never crashes; success means a script the linkers accept.
  The model is a set of total Lean functions whose only non-value outcome is
  `Fail.diverge` (recursion bound of the emitter exhausted); the former panic sites of the
  code are error values here as in the (repaired) implementation.
-/
import Props.Lemmas
namespace Slinky.C19
open Slinky

/-- the former `assert!(segments.len() == 1)`: single-segment mode with any other number of
segments is an error value. -/
theorem single_segment_count (cx : Ctx) (h : cx.d.settings.singleSegmentMode = true)
    (hn : cx.d.segments.length ≠ 1) : addAllSegments cx = .error (.err .invalidSegmentCount) := by
  unfold addAllSegments
  simp only [h, if_true]
  match hs : cx.d.segments with
  | [] => rfl
  | [_] => simp [hs] at hn
  | _ :: _ :: _ => rfl

/-- the former unbounded recursion: re-entering a section that the current chain of
sub-group descents already contains is reported as an error value at once. -/
theorem cycle_is_reported (cx : Ctx) (seg : Segment) (secs : List Str) (fuel : Nat) (f : FileInfo)
    (sec base : Str) (parents : List Str) (hinc : shouldEmit cx.o f.cond = true) (hc : sec ∈ parents) :
    emitEntry cx seg secs (fuel + 1) f sec base parents = .error (.err .cyclicSubgroups) := by
  unfold emitEntry
  simp [hinc, hc]

/-- an excluded entry returns at once, whatever its sections look like. -/
theorem excluded_returns (cx : Ctx) (seg : Segment) (secs : List Str) (fuel : Nat) (f : FileInfo)
    (sec base : Str) (parents : List Str) (hexc : shouldEmit cx.o f.cond = false) :
    emitEntry cx seg secs (fuel + 1) f sec base parents = .ok [] := by
  unfold emitEntry
  simp [hexc]

/-- a cyclic `sections_subgroups` table never reaches the emitter: the segment is rejected
when it is parsed. -/
theorem cyclic_subgroups_rejected (st : Settings) (s : SegmentS) (seg : Segment)
    (h : segmentRest st s = .ok seg) : hasSubgroupCycle seg.sectionsSubgroups = false := by
  unfold segmentRest at h
  peel h
  all_goals first
    | contradiction
    | injection h with h
      subst h
      simp_all

/-- the statement still to be proved for the recursion bound (`fuelFor`): with the cycle guard
the emitter never exhausts it. Until then a `diverge` outcome of the model on any generated
case is reported by the check as a broken correspondence. -/
def never_diverges_statement : Prop :=
  ∀ (d : Document) (o : Opts) (m : Mode) (vc : Bool), generate d o m vc ≠ .error .diverge

end Slinky.C19
