/-
  Helper lemmas shared by the property files (kept apart from the headline theorems).
-/
import Slinkyv
namespace Slinky

/-- peel a chain of `match … with | .error e => .error e | .ok x => …` in hypothesis `h`. -/
macro "peel " h:ident : tactic =>
  `(tactic| repeat (first | contradiction | split at $h:ident | dsimp only at $h:ident))

theorem mem_dedupAux {α} [DecidableEq α] (seen l : List α) (x : α) :
    x ∈ dedupAux seen l ↔ x ∈ l ∧ x ∉ seen := by
  induction l generalizing seen with
  | nil => simp [dedupAux]
  | cons a as ih =>
    unfold dedupAux
    by_cases h : a ∈ seen
    · simp only [h, if_true, ih, List.mem_cons]
      constructor
      · rintro ⟨h1, h2⟩; exact ⟨Or.inr h1, h2⟩
      · rintro ⟨h1 | h1, h2⟩
        · subst h1; exact absurd h h2
        · exact ⟨h1, h2⟩
    · simp only [h, if_false, List.mem_cons, ih]
      constructor
      · rintro (h1 | ⟨h1, h2⟩)
        · subst h1; exact ⟨Or.inl rfl, h⟩
        · exact ⟨Or.inr h1, fun hx => h2 (Or.inr hx)⟩
      · rintro ⟨h1 | h1, h2⟩
        · exact Or.inl h1
        · by_cases hxa : x = a
          · exact Or.inl hxa
          · exact Or.inr ⟨h1, fun hx => by rcases hx with hx | hx; exact hxa hx; exact h2 hx⟩

theorem mem_dedup {α} [DecidableEq α] (l : List α) (x : α) : x ∈ dedup l ↔ x ∈ l := by
  simp [dedup, mem_dedupAux]

theorem nodup_dedupAux {α} [DecidableEq α] (seen l : List α) : (dedupAux seen l).Nodup := by
  induction l generalizing seen with
  | nil => simp [dedupAux]
  | cons a as ih =>
    unfold dedupAux
    by_cases h : a ∈ seen
    · simp only [h, if_true]; exact ih seen
    · simp only [h, if_false, List.nodup_cons]
      refine ⟨?_, ih _⟩
      intro hm
      have := (mem_dedupAux (a :: seen) as a).1 hm
      exact this.2 (List.mem_cons_self)

theorem nodup_dedup {α} [DecidableEq α] (l : List α) : (dedup l).Nodup := nodup_dedupAux [] l

theorem mapE_zip {α β ε} (f : α → Except ε β) (l : List α) (r : List β) (h : mapE f l = .ok r) :
    r.length = l.length ∧ ∀ a b, (a, b) ∈ l.zip r → f a = .ok b := by
  induction l generalizing r with
  | nil => simp [mapE] at h; subst h; simp
  | cons x xs ih =>
    unfold mapE at h
    split at h
    · contradiction
    · rename_i y hy
      split at h
      · contradiction
      · rename_i ys hys
        injection h with h
        subst h
        have := ih ys hys
        refine ⟨by simp [this.1], ?_⟩
        intro a b hm
        simp only [List.zip_cons_cons, List.mem_cons] at hm
        rcases hm with hm | hm
        · cases hm; exact hy
        · exact this.2 a b hm

end Slinky
