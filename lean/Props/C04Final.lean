/-
  C04 in the image `Ld.link` returns (not only in the state behind a fragment):
  the ROM start and ROM end *symbols* of every emitted segment, as they stand when the link is
  over, satisfy the documented recurrence.

  `C04.image_rom_recurrence` (Props/C04.lean) follows the ROM counter through all segments;
  here the per-segment symbols are carried to the end of the script with `Ld.execK_keeps`
  (Props/Final.lean).  The only hypothesis beyond those of `image_rom_recurrence` is the one
  that makes "the value of `boot_ROM_START` in the image" well defined at all: the script
  assigns that name once (`assignCount n script ≤ 1`) — a decidable property of the generated
  text which the C04 check evaluates on every case (evidence `final_hypothesis`).
-/
import Props.Final
import Props.C04
namespace Slinky.C04
open Slinky W Ld

theorem symOf_linkerSym (s : Str) (e : Expr) (hs : s ≠ c!".") : symOf (linkerSym s e) = some s := by
  simp [symOf, linkerSym, hs]

/-- **the ROM start symbol of one emitted segment**: behind the segment's statements it holds
the ROM counter the segment was reached with, rounded up to the segment start alignment —
provided the segment's statements assign that name once. -/
theorem segment_rom_start (objs : List InSec) (cx : Ctx) (seg : Segment) (cls alloc noload : List Line)
    (hcls : ∀ l ∈ cls, OuterLine l ∧ symOf l ≠ some romPos)
    (st : St) (ho : Outside st) (r : Nat) (hr : lookupLast romPos st.syms = some (.num r)) (k : List Line)
    (hc : assignCount (cx.d.settings.style.segRomStart seg.name) (segmentLines cx seg cls alloc noload) ≤ 1) :
    lookupLast (cx.d.settings.style.segRomStart seg.name) (execK objs st (segmentLines cx seg cls alloc noload) k).syms
      = some (.num (alignO seg.segmentStartAlign r)) := by
  generalize hsty : cx.d.settings.style = sty at *
  have hne : sty.segRomStart seg.name ≠ c!"." := endsOk_ne_dot _ (segRomStart_ok _ _)
  obtain ⟨R, hform⟩ : ∃ R, segmentLines cx seg cls alloc noload = cls ++
      ((match seg.segmentStartAlign with
        | some a => [alignSymbol c!"__romPos" a, alignSymbol c!"." a] | none => []) ++
       (linkerSym (sty.segRomStart seg.name) (.sym c!"__romPos") :: R)) :=
    ⟨_, by rw [segmentLines_eq, hsty]; simp only [List.append_assoc, List.cons_append, List.nil_append]; rfl⟩
  rw [hform] at hc ⊢
  -- the rest assigns the name nowhere
  have hR0 : assignCount (sty.segRomStart seg.name) R = 0 := by
    simp only [assignCount_append, assignCount_cons, symOf_linkerSym _ _ hne, if_true] at hc
    omega
  rw [execK_append, execK_append]
  -- the class prologue
  obtain ⟨o1, _, _, _⟩ := run_outer objs cls (fun l hl => (hcls l hl).1) st ho
    (((match seg.segmentStartAlign with
        | some a => [alignSymbol c!"__romPos" a, alignSymbol c!"." a] | none => []) ++
      (linkerSym (sty.segRomStart seg.name) (.sym c!"__romPos") :: R)) ++ k)
  have r1 := run_outer_keeps objs romPos cls (fun l hl => (hcls l hl).1) (fun l hl => (hcls l hl).2) st ho
    (((match seg.segmentStartAlign with
        | some a => [alignSymbol c!"__romPos" a, alignSymbol c!"." a] | none => []) ++
      (linkerSym (sty.segRomStart seg.name) (.sym c!"__romPos") :: R)) ++ k)
  generalize execK objs st cls _ = st1 at *
  -- the start alignments
  obtain ⟨st2, e2, o2, _, r2, _, _, _⟩ := seg_aligns objs seg.segmentStartAlign st1 o1 r (r1.trans hr)
    ((linkerSym (sty.segRomStart seg.name) (.sym c!"__romPos") :: R) ++ k)
  erw [← e2]
  -- the ROM start symbol, then nothing else touches it
  simp only [execK]
  rw [execK_keeps_count objs _ R _ k hR0]
  have e3 : step objs st2 (linkerSym (sty.segRomStart seg.name) (.sym c!"__romPos")) (R ++ k)
      = { st2 with syms := st2.syms ++ [(sty.segRomStart seg.name, eval st2 (.sym c!"__romPos"))] } :=
    step_assign_sym objs st2 _ _ _ _ _ _ hne o2.nd
  rw [e3]
  have : eval st2 (.sym c!"__romPos") = .num (alignO seg.segmentStartAlign r) := eval_sym_num st2 _ _ r2
  simp [lookupLast_snoc, this]

/-- the ROM start symbol is assigned among the statements of its segment. -/
theorem romStart_assigned (cx : Ctx) (seg : Segment) (cls alloc noload : List Line) :
    1 ≤ assignCount (cx.d.settings.style.segRomStart seg.name) (segmentLines cx seg cls alloc noload) := by
  have hne : cx.d.settings.style.segRomStart seg.name ≠ c!"." := endsOk_ne_dot _ (segRomStart_ok _ _)
  apply assignCount_pos (l := linkerSym (cx.d.settings.style.segRomStart seg.name) (.sym c!"__romPos"))
  · rw [segmentLines_eq]; simp
  · exact symOf_linkerSym _ _ hne

/-- the ROM end symbol is assigned among the statements of its segment. -/
theorem romEnd_assigned (cx : Ctx) (seg : Segment) (cls alloc noload : List Line) :
    1 ≤ assignCount (cx.d.settings.style.segRomEnd seg.name) (segmentLines cx seg cls alloc noload) := by
  have hne : cx.d.settings.style.segRomEnd seg.name ≠ c!"." := endsOk_ne_dot _ (segRomEnd_ok _ _)
  apply assignCount_pos (l := linkerSym (cx.d.settings.style.segRomEnd seg.name) (.sym c!"__romPos"))
  · rw [segmentLines_eq]; simp [segTail, symEndSize]
  · exact symOf_linkerSym _ _ hne

/-- what the ROM symbols of the emitted segments hold: for every split of the list of emitted
segments (with the sizes of their allocatable output sections) `pre ++ (seg, size) :: post`,
the start symbol is the recurrence over `pre` rounded up to `seg`'s start alignment and the end
symbol is the recurrence over `pre ++ [(seg, size)]` — for the names that `ls` assigns once. -/
def RomSyms (sty : Style) (r : Nat) (zs : List (Segment × Nat)) (ls : List Line) (st' : St) : Prop :=
  ∀ (pre post : List (Segment × Nat)) (seg : Segment) (size : Nat), zs = pre ++ (seg, size) :: post →
    (assignCount (sty.segRomStart seg.name) ls ≤ 1 →
      lookupLast (sty.segRomStart seg.name) st'.syms = some (.num (alignO seg.segmentStartAlign (romFold r pre)))) ∧
    (assignCount (sty.segRomEnd seg.name) ls ≤ 1 →
      lookupLast (sty.segRomEnd seg.name) st'.syms = some (.num (romFold r (pre ++ [(seg, size)])))) ∧
    1 ≤ assignCount (sty.segRomStart seg.name) ls ∧ 1 ≤ assignCount (sty.segRomEnd seg.name) ls

theorem romFold_append (r : Nat) (a b : List (Segment × Nat)) : romFold r (a ++ b) = romFold (romFold r a) b := by
  induction a generalizing r with
  | nil => rfl
  | cons x xs ih => simp [romFold, ih]

/-- **the ROM symbols behind all segments** (`segments_rom_image` with the per-segment symbols
carried along). -/
theorem segments_rom_symbols (objs : List InSec) (cx : Ctx) (hsy : cx.emitSecSyms = true) :
    ∀ (segs : List Segment) (em : List Str) (ls : List Line) (em' : List Str)
      (_ : addSegments cx em segs = .ok (ls, em'))
      (_ : ∀ s ∈ segs, shouldEmit cx.o s.cond = true → s.allocSections ≠ [])
      (st : St) (_ : Outside st) (r : Nat) (_ : lookupLast romPos st.syms = some (.num r)) (k : List Line),
      ∃ (zs : List (Segment × Nat)) (st' : St),
        st' = execK objs st ls k ∧ Outside st' ∧
        zs.map (·.1) = segs.filter (fun s => shouldEmit cx.o s.cond) ∧
        lookupLast romPos st'.syms = some (.num (romFold r zs)) ∧
        (∀ sz ∈ zs, ∃ o ∈ st'.secs, o.name = c!"." ++ sz.1.name ∧ o.size = sz.2 ∧ o.noload = false) ∧
        RomSyms cx.d.settings.style r zs ls st' := by
  intro segs
  induction segs with
  | nil =>
    intro em ls em' h _ st ho r hr k
    simp only [addSegments] at h
    injection h with h
    simp only [Prod.mk.injEq] at h
    obtain ⟨rfl, _⟩ := h
    refine ⟨[], st, rfl, ho, rfl, hr, (fun _ h => nomatch h), ?_⟩
    intro pre post seg size h
    cases pre <;> simp at h
  | cons seg rest ih =>
    intro em ls em' h hall st ho r hr k
    simp only [addSegments] at h
    split at h
    · contradiction
    · rename_i a em1 hadd
      split at h
      · contradiction
      · rename_i b em2 hrest
        injection h with h
        simp only [Prod.mk.injEq] at h
        obtain ⟨rfl, _⟩ := h
        rw [execK_append]
        unfold addSegment at hadd
        split at hadd
        · -- excluded: nothing is written
          rename_i hx
          injection hadd with hadd
          simp only [Prod.mk.injEq] at hadd
          obtain ⟨rfl, rfl⟩ := hadd
          have hex : shouldEmit cx.o seg.cond = false := by
            cases hh : shouldEmit cx.o seg.cond
            · rfl
            · simp [hh] at hx
          obtain ⟨zs, st', e, o, hz, hrom, hsecs, hsyms⟩ := ih _ _ _ hrest (fun s hs => hall s (List.mem_cons_of_mem _ hs)) st ho r hr k
          exact ⟨zs, st', by simpa [execK] using e, o, by simp [List.filter_cons, hex, hz], hrom, hsecs, by simpa using hsyms⟩
        · rename_i hinc
          have hem : shouldEmit cx.o seg.cond = true := by
            cases hh : shouldEmit cx.o seg.cond
            · simp [hh] at hinc
            · rfl
          split at hadd
          · contradiction
          · rename_i cls em3 hcp
            split at hadd
            · contradiction
            · rename_i alloc halloc
              split at hadd
              · contradiction
              · rename_i noload hnoload
                injection hadd with hadd
                simp only [Prod.mk.injEq] at hadd
                obtain ⟨rfl, rfl⟩ := hadd
                have hcls : ∀ l ∈ cls, OuterLine l ∧ symOf l ≠ some romPos := by
                  unfold classPart at hcp
                  split at hcp
                  · injection hcp with hcp; simp only [Prod.mk.injEq] at hcp; obtain ⟨rfl, _⟩ := hcp
                    intro l hl; cases hl
                  · split at hcp
                    · contradiction
                    · rename_i vc _
                      split at hcp
                      · injection hcp with hcp; simp only [Prod.mk.injEq] at hcp; obtain ⟨rfl, _⟩ := hcp
                        intro l hl; cases hl
                      · injection hcp with hcp; simp only [Prod.mk.injEq] at hcp; obtain ⟨rfl, _⟩ := hcp
                        exact classIntro_outer cx _ vc
                obtain ⟨aS, aE, al, dN, st1, lmaV, e1, o1, _, _, _, _, _, _, r1, re1, _, hsec1, hext1⟩ :=
                  segment_image objs cx seg cls alloc noload hcls halloc hnoload
                    (hall seg List.mem_cons_self hem) hsy st ho r hr (b ++ k)
                have rs1 := segment_rom_start objs cx seg cls alloc noload hcls st ho r hr (b ++ k)
                rw [← e1] at rs1
                obtain ⟨zs, st', e, o, hz, hrom, hsecs, hsyms⟩ := ih _ _ _ hrest (fun s hs => hall s (List.mem_cons_of_mem _ hs))
                  st1 o1 _ r1 k
                have hA1 := romStart_assigned cx seg cls alloc noload
                have hA2 := romEnd_assigned cx seg cls alloc noload
                refine ⟨(seg, aE - aS) :: zs, st', by rw [e, e1], o, ?_, ?_, ?_, ?_⟩
                · simp [List.filter_cons, hem, hz]
                · simpa [romFold, romStep] using hrom
                · intro sz hsz
                  rcases List.mem_cons.1 hsz with rfl | hsz
                  · obtain ⟨extra, hx⟩ := execK_secs objs b st1 k
                    exact ⟨_, by rw [e, hx]; exact List.mem_append_left _ hsec1, rfl, rfl, rfl⟩
                  · exact hsecs sz hsz
                · intro pre post sg size hsplit
                  cases pre with
                  | nil =>
                    simp only [List.nil_append, List.cons.injEq, Prod.mk.injEq] at hsplit
                    obtain ⟨⟨rfl, rfl⟩, rfl⟩ := hsplit
                    refine ⟨?_, ?_, ?_, ?_⟩
                    · intro hc
                      rw [assignCount_append] at hc
                      rw [e, execK_keeps_count objs _ b st1 k (by omega)]
                      exact rs1 (by omega)
                    · intro hc
                      rw [assignCount_append] at hc
                      rw [e, execK_keeps_count objs _ b st1 k (by omega)]
                      simpa [romFold, romStep] using re1
                    · rw [assignCount_append]; omega
                    · rw [assignCount_append]; omega
                  | cons p pre' =>
                    simp only [List.cons_append, List.cons.injEq] at hsplit
                    obtain ⟨rfl, hsplit⟩ := hsplit
                    obtain ⟨h1, h2, h3, h4⟩ := hsyms pre' post sg size hsplit
                    refine ⟨?_, ?_, ?_, ?_⟩
                    · intro hc
                      rw [assignCount_append] at hc
                      simpa [romFold, romStep] using h1 (by omega)
                    · intro hc
                      rw [assignCount_append] at hc
                      simpa [romFold, romStep] using h2 (by omega)
                    · rw [assignCount_append]; omega
                    · rw [assignCount_append]; omega

/-! ### the image `Ld.link` returns for the whole ordinary script -/

theorem execK_quiet (objs : List InSec) : ∀ (ls : List Line) (_ : ∀ l ∈ ls, l = .blank ∨ ∃ t, l = .comment t) (st : St) (k : List Line),
    execK objs st ls k = st := by
  intro ls
  induction ls with
  | nil => intro _ st k; rfl
  | cons l r ih =>
    intro h st k
    simp only [execK]
    have : step objs st l (r ++ k) = st := by
      rcases h l List.mem_cons_self with rfl | ⟨t, rfl⟩ <;> rfl
    rw [this]
    exact ih (fun x hx => h x (List.mem_cons_of_mem _ hx)) st k

theorem assignCount_quiet (n : Str) : ∀ (ls : List Line) (_ : ∀ l ∈ ls, l = .blank ∨ ∃ t, l = .comment t), assignCount n ls = 0 := by
  intro ls
  induction ls with
  | nil => intro _; rfl
  | cons l r ih =>
    intro h
    rw [assignCount_cons, ih (fun x hx => h x (List.mem_cons_of_mem _ hx))]
    rcases h l List.mem_cons_self with rfl | ⟨t, rfl⟩ <;> simp [symOf]

theorem versionComment_quiet (b : Bool) : ∀ l ∈ versionComment b, l = .blank ∨ ∃ t, l = .comment t := by
  intro l hl
  unfold versionComment at hl
  split at hl
  · simp only [List.mem_cons, List.mem_nil_iff, or_false] at hl
    rcases hl with rfl | rfl
    · exact Or.inr ⟨_, rfl⟩
    · exact Or.inl rfl
  · cases hl

/-- **C04 in the linked image, for the whole ordinary script of a document.**
For every document in multi-segment mode whose emitted segments have at least one allocatable
section, every custom-option set, every object table and every `--defsym` table: in the image
`Ld.link` computes for the script slinky generates, the output sections `.<segment>` of the
emitted segments have some sizes `zs`, and for every emitted segment

* its ROM start symbol is the ROM end of the emitted segment before it (0 for the first)
  rounded up to its start alignment, and
* its ROM end symbol is that start plus the size of its allocatable output section only,
  rounded up to its end alignment

— for every ROM symbol name that the script assigns once.  (When two segments share a name, or a
user assignment reuses a generated name, "the value of `X_ROM_START`" is the last assignment's;
the recurrence then still holds for the ROM counter itself: `image_rom_recurrence`.) -/
theorem final_rom_symbols (objs : List InSec) (d : Document) (o : Opts) (vc : Bool) (script : List Line)
    (hmulti : d.settings.singleSegmentMode = false)
    (h : generateNormal d o vc = .ok script)
    (hall : ∀ s ∈ d.segments, shouldEmit o s.cond = true → s.allocSections ≠ [])
    (defsyms : List (Str × Nat)) :
    ∃ zs : List (Segment × Nat),
      zs.map (·.1) = d.segments.filter (fun s => shouldEmit o s.cond) ∧
      (∀ sz ∈ zs, ∃ os ∈ (link objs defsyms script).secs, os.name = c!"." ++ sz.1.name ∧ os.size = sz.2 ∧ os.noload = false) ∧
      ∀ (pre post : List (Segment × Nat)) (seg : Segment) (size : Nat), zs = pre ++ (seg, size) :: post →
        (assignCount (d.settings.style.segRomStart seg.name) script ≤ 1 →
          (link objs defsyms script).sym (d.settings.style.segRomStart seg.name)
            = some (alignO seg.segmentStartAlign (romFold 0 pre))) ∧
        (assignCount (d.settings.style.segRomEnd seg.name) script ≤ 1 →
          (link objs defsyms script).sym (d.settings.style.segRomEnd seg.name)
            = some (romFold 0 (pre ++ [(seg, size)]))) := by
  unfold generateNormal at h
  split at h
  · contradiction
  · rename_i body hbody
    injection h with h
    subst h
    unfold addAllSegments at hbody
    simp only [hmulti, Bool.false_eq_true, if_false] at hbody
    split at hbody
    · contradiction
    · rename_i ls emitted hsegs
      injection hbody with hbody
      subst hbody
      generalize hcx : ({ d := d, o := o } : Ctx) = cx at *
      have hd : cx.d = d := by rw [← hcx]
      have ho' : cx.o = o := by rw [← hcx]
      have hsy : cx.emitSecSyms = true := by rw [← hcx]
      generalize hT : endSections cx emitted ++ topLevel d o = T
      have hform : versionComment vc ++ (beginSections cx ++ ls ++ endSections cx emitted) ++ topLevel d o
          = versionComment vc ++ (beginSections cx ++ (ls ++ T)) := by rw [← hT]; simp [List.append_assoc]
      rw [hform, link_eq]
      generalize carry _ = S0
      -- the version comment does nothing
      rw [execK_append, execK_quiet objs _ (versionComment_quiet vc)]
      -- `SECTIONS {`, the ROM counter starts at 0
      rw [execK_append, execK_append]
      have hb : ∃ st1, st1 = execK objs { syms := S0 } (beginSections cx) (ls ++ T ++ []) ∧ Outside st1 ∧
          lookupLast Ld.romPos st1.syms = some (.num 0) := by
        refine ⟨_, rfl, ?_, ?_⟩
        · unfold beginSections
          cases cx.d.settings.hardcodedGpValue <;> simp [execK, step, setSym] <;> exact ⟨rfl, rfl⟩
        · unfold beginSections
          cases cx.d.settings.hardcodedGpValue <;> simp [execK, step, setSym, eval, lookupLast_snoc, lookupLast_snoc2, Ld.romPos]
      obtain ⟨st1, e1, o1, r1⟩ := hb
      rw [← e1]
      obtain ⟨zs, st', e, _, hz, _, hsecs, hsyms⟩ := segments_rom_symbols objs cx hsy d.segments [] ls emitted
        hsegs (by rw [ho']; exact hall) st1 o1 0 r1 (T ++ [])
      rw [← e]
      -- what follows the segments
      obtain ⟨extra, hx⟩ := execK_secs objs T st' []
      refine ⟨zs, by rw [hz, ho'], ?_, ?_⟩
      · intro sz hsz
        obtain ⟨os, hos, h1, h2, h3⟩ := hsecs sz hsz
        exact ⟨os, by simp only [imageOf]; rw [hx]; exact List.mem_append_left _ hos, h1, h2, h3⟩
      · intro pre post seg size hsplit
        obtain ⟨h1, h2, h3, h4⟩ := hsyms pre post seg size hsplit
        rw [hd] at h1 h2 h3 h4
        have hb0 : ∀ n, assignCount n (versionComment vc) = 0 := fun n => assignCount_quiet n _ (versionComment_quiet vc)
        constructor
        · intro hc
          simp only [assignCount_append, hb0] at hc
          rw [imageOf_sym, execK_keeps_count objs _ T st' [] (by omega),
            h1 (by omega)]
          rfl
        · intro hc
          simp only [assignCount_append, hb0] at hc
          rw [imageOf_sym, execK_keeps_count objs _ T st' [] (by omega),
            h2 (by omega)]
          rfl

/-! ### the hypotheses are met, and the conclusion is about real numbers -/

def exF (p : Str) : FileInfo := .mk p .object [] 0 [] [] [] [] [] ({} : Cond) .absent
def exDoc : Document :=
  { segments := [
      { name := c!"boot", fixedVram := some 0x80000000, allocSections := [c!".text", c!".data"], noloadSections := [c!".bss"],
        segmentEndAlign := some 16, files := [exF c!"a.o"] },
      { name := c!"main", allocSections := [c!".text", c!".data"], noloadSections := [c!".bss"],
        segmentStartAlign := some 64, files := [exF c!"b.o"] }] }
def exOpts : Opts := fun _ => none
def exObjs : List InSec :=
  [⟨c!"a.o", none, c!".text", 20, 4⟩, ⟨c!"a.o", none, c!".bss", 100, 8⟩, ⟨c!"b.o", none, c!".text", 8, 4⟩, ⟨c!"b.o", none, c!".data", 5, 1⟩]

/-- the script of the example document assigns each ROM symbol once (the hypothesis of
`final_rom_symbols`), and the image has the values the recurrence gives: `boot` loads at 0 and
ends at 20 rounded up to 16 = 32 (its 100 bytes of noload data take no ROM), `main` loads at 32
rounded up to 64 and ends 13 bytes later. -/
example : (match generateNormal exDoc exOpts false with
    | .ok script =>
      decide (assignCount c!"boot_ROM_START" script = 1) && decide (assignCount c!"main_ROM_END" script = 1)
      && decide ((link exObjs [] script).sym c!"boot_ROM_START" = some 0)
      && decide ((link exObjs [] script).sym c!"boot_ROM_END" = some 32)
      && decide ((link exObjs [] script).sym c!"main_ROM_START" = some 64)
      && decide ((link exObjs [] script).sym c!"main_ROM_END" = some 77)
    | .error _ => false) = true := by decide +kernel

end Slinky.C04
