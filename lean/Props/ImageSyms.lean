/-
  Props.ImageSyms — in the linker semantics every symbol assignment that is executed outside
  `/DISCARD/` defines its symbol, and nothing ever removes a symbol: whatever the script
  assigns before the discard block is in the symbol table of the image.
-/
import Props.Image
namespace Slinky
namespace Ld
open W

def names (st : St) : List Str := st.syms.map (·.1)

theorem placeAll_syms (out : Str) (sub : Option Nat) (l : List InSec) (st : St) : (placeAll out sub st l).syms = st.syms :=
  (placeAll_spec out sub l st).2.2.2.1

/-- one statement never removes a symbol. -/
theorem step_names_mono (objs : List InSec) (st : St) (l : Line) (r : List Line) :
    ∀ n ∈ names st, n ∈ names (step objs st l r) := by
  intro n hn
  unfold names at *
  cases l <;> simp only [step] <;> (try exact hn)
  case assign s e p h lk =>
    split
    · exact hn
    · split
      · split <;> exact hn
      · simp only [setSym, List.map_append, List.mem_append]; exact Or.inl hn
  case addAssign s e =>
    split
    · exact hn
    · split
      · split <;> exact hn
      · split <;> (simp only [setSym, List.map_append, List.mem_append]; exact Or.inl hn)
  case input k p m s w =>
    split
    · rw [placeAll_syms]; exact hn
    · exact hn
  case singleEntry sec addr =>
    rw [placeAll_syms]; exact hn
  case discardPat pat => split <;> exact hn
  case blockClose =>
    split
    · split <;> exact hn
    · exact hn

theorem exec_names_mono (objs : List InSec) : ∀ (ls : List Line) (st : St), ∀ n ∈ names st, n ∈ names (exec objs st ls) := by
  intro ls
  induction ls with
  | nil => intro st n hn; exact hn
  | cons l rest ih =>
    intro st n hn
    simp only [exec]
    exact ih _ n (step_names_mono objs st l rest n hn)

/-- a statement that is not the discard header keeps the link outside `/DISCARD/`. -/
theorem step_not_discard (objs : List InSec) (st : St) (l : Line) (r : List Line) (hd : st.inDiscard = false)
    (hl : l ≠ .discardHdr) : (step objs st l r).inDiscard = false := by
  cases l <;> simp only [step, hd] <;> (try rfl) <;> (try exact hd)
  case assign s e p h lk =>
    simp only [Bool.false_eq_true, if_false]
    split
    · split <;> simp [hd]
    · exact hd
  case addAssign s e =>
    simp only [Bool.false_eq_true, if_false]
    split
    · split <;> simp [hd]
    · split <;> exact hd
  case input k p m s w =>
    split
    · rw [(placeAll_spec _ _ _ st).2.1]; exact hd
    · exact hd
  case singleEntry sec addr =>
    rw [(placeAll_spec _ _ _ _).2.1]
  case discardHdr => exact absurd rfl hl
  case blockClose =>
    split
    · split <;> simp [hd]
    · rfl

/-- **every symbol assigned before the discard block is defined in the image**: if `A` holds
no `/DISCARD/` header, the link starts outside one, and a statement of `A` assigns `s`, then
`s` is in the symbol table after linking `A ++ B`, whatever `B` is. -/
theorem assigned_is_defined (objs : List InSec) : ∀ (A B : List Line) (st : St) (_ : st.inDiscard = false)
    (_ : ∀ l ∈ A, l ≠ .discardHdr) (s : Str) (e : Expr) (p h lk : Bool) (_ : s ≠ c!".")
    (_ : Line.assign s e p h lk ∈ A), s ∈ names (exec objs st (A ++ B)) := by
  intro A
  induction A with
  | nil => intro B st _ _ s e p h lk _ hm; cases hm
  | cons l rest ih =>
    intro B st hd hnd s e p h lk hs hm
    simp only [List.cons_append, exec]
    rcases List.mem_cons.1 hm with rfl | hm
    · apply exec_names_mono
      rw [step_assign_sym objs st s e p h lk _ hs hd]
      simp [names]
    · exact ih B _ (step_not_discard objs st l _ hd (hnd l List.mem_cons_self))
        (fun x hx => hnd x (List.mem_cons_of_mem _ hx)) s e p h lk hs hm

end Ld
end Slinky
