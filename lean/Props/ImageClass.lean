/-
  Props.ImageClass — vram classes in the linker semantics: what the class prologue leaves in the
  start and end symbols, that a member segment opens at the value of the class start symbol,
  and that the class end symbol accumulates the maximum of the members' VRAM ends.
-/
import Props.ImageDoc
namespace Slinky
namespace Ld
open W

theorem last7_classStart (sty : Style) (n : Str) : lastN 7 (sty.classStart n) = (match sty with | .splat => c!"TRATS_S" | .makerom => c!"tratSss") := by
  cases sty <;> (unfold Style.classStart; simp only []; rw [lastN_append _ _ _ (by decide)]; decide)
theorem last7_segRomStart (sty : Style) (n : Str) : lastN 7 (sty.segRomStart n) = (match sty with | .splat => c!"TRATS_M" | .makerom => c!"tratSmo") := by
  cases sty <;> (unfold Style.segRomStart; simp only []; rw [lastN_append _ _ _ (by decide)]; decide)
theorem last7_segVramStart_makerom (n : Str) : lastN 7 (Style.makerom.segVramStart n) = c!"tratStn" := by
  unfold Style.segVramStart; simp only []; rw [lastN_append _ _ _ (by decide)]; decide

theorem classStart_ne_romStart (sty : Style) (c n : Str) : sty.classStart c ≠ sty.segRomStart n :=
  ne_of_lastN 7 (by rw [last7_classStart, last7_segRomStart]; cases sty <;> decide)

theorem classStart_ne_vramStart (sty : Style) (c n : Str) : sty.classStart c ≠ sty.segVramStart n := by
  cases sty
  · -- splat: `…_VRAM_CLASS_START` ends in `T`, `…_VRAM` in `M`
    refine ne_of_lastN 1 ?_
    unfold Style.classStart Style.segVramStart
    simp only []
    rw [lastN_append _ _ _ (by decide), lastN_append _ _ _ (by decide)]
    decide
  · exact ne_of_lastN 7 (by rw [last7_classStart, last7_segVramStart_makerom]; decide)

/-- `ALIGN`/`MAX`/… of operands that hold numbers. -/
theorem eval_maxE (st : St) (a b : Str) (x y : Nat) (ha : a ≠ c!".") (hb : b ≠ c!".")
    (hx : lookupLast a st.syms = some (.num x)) (hy : lookupLast b st.syms = some (.num y)) :
    eval st (.maxE a b) = .num (max x y) := by
  simp [eval, operand_num st a x ha hx, operand_num st b y hb hy]

/-- **a member of a vram class opens at the value of the class start symbol**: when the
address of the segment is its class (`segAddr = classStart c`) and the class start symbol
holds `v` when the segment's own statements begin, the allocatable output section is
recorded at `v`. -/
theorem member_starts_at_class (objs : List InSec) (cx : Ctx) (seg : Segment) (alloc noload : List Line) (c : Str)
    (hc : segAddr cx seg = some (cx.d.settings.style.classStart c))
    (ha : writeSegment cx seg seg.allocSections false = .ok alloc)
    (hn : writeSegment cx seg seg.noloadSections true = .ok noload)
    (hne : seg.allocSections ≠ []) (hsy : cx.emitSecSyms = true)
    (st : St) (ho : Outside st) (r : Nat) (hr : lookupLast romPos st.syms = some (.num r))
    (v : Nat) (hv : lookupLast (cx.d.settings.style.classStart c) st.syms = some (.num v)) (k : List Line) :
    ∃ (aE al : Nat) (lmaV : Option Nat),
      (⟨c!"." ++ seg.name, v, aE - v, lmaV, false, al⟩ : OutSec) ∈ (execK objs st (segmentLines cx seg [] alloc noload) k).secs := by
  obtain ⟨aS, aE, al, dN, st', lmaV, h1, _, _, h4, _, _, _, _, _, _, _, h12, _⟩ :=
    segment_image objs cx seg [] alloc noload (fun _ h => nomatch h) ha hn hne hsy st ho r hr k
  obtain ⟨st₁, _, _, hk, hS⟩ := h4 _ hc
  have hcs := classStart_ok cx.d.settings.style c
  have hkeep : lookupLast (cx.d.settings.style.classStart c) st₁.syms = some (.num v) := by
    rw [hk _ (ne_romPos hcs) (fun _ h => nomatch h) (classStart_ne_romStart _ _ _) (classStart_ne_vramStart _ _ _)]
    · exact hv
    · intro l hl
      unfold kindStart at hl
      split at hl
      · simp only [List.mem_cons, List.mem_nil_iff, or_false] at hl
        rcases hl with rfl | rfl
        · simp [symOf, linkerSym, endsOk_ne_dot _ (segVramStart_ok cx.d.settings.style _),
            Ne.symm (classStart_ne_vramStart cx.d.settings.style c (kindName seg false))]
        · simp [symOf]
      · cases hl
  have : aS = v := by
    rw [hS, operand_num st₁ _ v (endsOk_ne_dot _ hcs) hkeep]; rfl
  subst this
  exact ⟨aE, al, lmaV, h1 ▸ h12⟩

/-! ### the class prologue -/

theorem last1_classStart (sty : Style) (n : Str) : lastN 1 (sty.classStart n) = (match sty with | .splat => c!"T" | .makerom => c!"t") := by
  cases sty <;> (unfold Style.classStart; simp only []; rw [lastN_append _ _ _ (by decide)]; decide)
theorem last1_classEnd (sty : Style) (n : Str) : lastN 1 (sty.classEnd n) = (match sty with | .splat => c!"D" | .makerom => c!"d") := by
  cases sty <;> (unfold Style.classEnd; simp only []; rw [lastN_append _ _ _ (by decide)]; decide)

theorem classStart_ne_classEnd (sty : Style) (a b : Str) : sty.classStart a ≠ sty.classEnd b :=
  ne_of_lastN 1 (by rw [last1_classStart, last1_classEnd]; cases sty <;> decide)

/-- a run of `s = MAX(s, e_i);` statements leaves in `s` the maximum of its old value and
the values of the `e_i`. -/
theorem max_run (objs : List InSec) (s : Str) (hs : s ≠ c!".") (ev : Str → Nat) :
    ∀ (others : List Str) (st : St) (_ : Outside st) (m : Nat) (_ : lookupLast s st.syms = some (.num m))
      (_ : ∀ o ∈ others, o ≠ c!"." ∧ o ≠ s ∧ lookupLast o st.syms = some (.num (ev o))) (k : List Line),
      Outside (execK objs st (others.map fun o => maxSelf s o) k) ∧
      lookupLast s (execK objs st (others.map fun o => maxSelf s o) k).syms
        = some (.num (others.foldl (fun m o => max m (ev o)) m)) ∧
      (execK objs st (others.map fun o => maxSelf s o) k).dot = st.dot ∧
      (execK objs st (others.map fun o => maxSelf s o) k).secs = st.secs ∧
      (∀ n, n ≠ s → lookupLast n (execK objs st (others.map fun o => maxSelf s o) k).syms = lookupLast n st.syms) := by
  intro others
  induction others with
  | nil => intro st ho m hm _ k; exact ⟨ho, hm, rfl, rfl, fun _ _ => rfl⟩
  | cons o rest ih =>
    intro st ho m hm hall k
    obtain ⟨ho1, ho2, ho3⟩ := hall o List.mem_cons_self
    simp only [List.map_cons, execK]
    have e1 : step objs st (maxSelf s o) ((rest.map fun o => maxSelf s o) ++ k)
        = { st with syms := st.syms ++ [(s, Val.num (max m (ev o)))] } := by
      unfold maxSelf
      rw [step_assign_sym objs st s _ _ _ _ _ hs ho.nd, eval_maxE st s o m (ev o) hs ho1 hm ho3]
    rw [e1]
    have hall' : ∀ o' ∈ rest, o' ≠ c!"." ∧ o' ≠ s ∧
        lookupLast o' ({ st with syms := st.syms ++ [(s, Val.num (max m (ev o)))] } : St).syms = some (.num (ev o')) := by
      intro o' ho'
      obtain ⟨h1, h2, h3⟩ := hall o' (List.mem_cons_of_mem _ ho')
      refine ⟨h1, h2, ?_⟩
      simp [lookupLast_snoc, Ne.symm h2, h3]
    obtain ⟨r1, r2, r3, r4, r5⟩ := ih { st with syms := st.syms ++ [(s, Val.num (max m (ev o)))] } ⟨ho.cur, ho.nd⟩
      (max m (ev o)) (by simp [lookupLast_snoc]) hall' k
    refine ⟨r1, by simpa [List.foldl_cons] using r2, r3, r4, ?_⟩
    intro n hn
    rw [r5 n hn]
    simp [lookupLast_snoc, Ne.symm hn]

/-- **the class prologue in the linked image**: the class start symbol holds `fixed_vram`,
the value of `fixed_symbol`, or the largest value among the end symbols of the followed
classes (0 when there is none); the class end symbol starts at 0. -/
theorem class_intro_image (objs : List InSec) (cx : Ctx) (cname : Str) (vc : VramClass)
    (st : St) (ho : Outside st) (ev : Str → Nat) (k : List Line)
    (hfs : ∀ fs, vc.fixedVram = none → vc.fixedSymbol = some fs → lookupLast fs st.syms = some (.num (ev fs)))
    (hfo : vc.fixedVram = none → vc.fixedSymbol = none → ∀ o ∈ followedUsed cx vc,
      lookupLast (cx.d.settings.style.classEnd o) st.syms = some (.num (ev (cx.d.settings.style.classEnd o)))) :
    let st' := execK objs st (classIntro cx cname vc) k
    Outside st' ∧ st'.dot = st.dot ∧ st'.secs = st.secs ∧
    lookupLast (cx.d.settings.style.classEnd cname) st'.syms = some (.num 0) ∧
    lookupLast (cx.d.settings.style.classStart cname) st'.syms = some (.num
      (match vc.fixedVram with
       | some v => v
       | none => match vc.fixedSymbol with
         | some fs => ev fs
         | none => ((followedUsed cx vc).map cx.d.settings.style.classEnd).foldl (fun m o => max m (ev o)) 0)) := by
  intro st'
  generalize hsty : cx.d.settings.style = sty at *
  have hS := endsOk_ne_dot _ (classStart_ok sty cname)
  have hE := endsOk_ne_dot _ (classEnd_ok sty cname)
  have hSE := classStart_ne_classEnd sty cname cname
  -- the last two lines: `END = 0;` and an empty line
  have tailRun : ∀ (s2 : St), Outside s2 →
      let s3 := execK objs s2 [linkerSym (sty.classEnd cname) (.hex8 0), Line.blank] k
      Outside s3 ∧ s3.dot = s2.dot ∧ s3.secs = s2.secs ∧ lookupLast (sty.classEnd cname) s3.syms = some (.num 0) ∧
      lookupLast (sty.classStart cname) s3.syms = lookupLast (sty.classStart cname) s2.syms := by
    intro s2 h2
    simp only [execK, List.nil_append, List.cons_append]
    unfold linkerSym
    rw [step_assign_sym objs s2 _ _ _ _ _ _ hE h2.nd]
    simp only [step, eval]
    exact ⟨⟨h2.cur, h2.nd⟩, trivial, trivial, by simp [lookupLast_snoc], by simp [lookupLast_snoc, Ne.symm hSE]⟩
  have hunf : classIntro cx cname vc = (match vc.fixedVram with
      | some v => [linkerSym (sty.classStart cname) (.hex8 v)]
      | none => match vc.fixedSymbol with
        | some fs => [linkerSym (sty.classStart cname) (.sym fs)]
        | none => linkerSym (sty.classStart cname) (.hex8 0) ::
            (followedUsed cx vc).map (fun other => maxSelf (sty.classStart cname) (sty.classEnd other)))
      ++ [linkerSym (sty.classEnd cname) (.hex8 0), Line.blank] := by
    unfold classIntro; rw [hsty]; cases vc.fixedVram <;> cases vc.fixedSymbol <;> rfl
  show _ ∧ _ ∧ _ ∧ _ ∧ _
  simp only [st', hunf, execK_append]
  cases hv : vc.fixedVram with
  | some v =>
    simp only []
    have e1 : execK objs st [linkerSym (sty.classStart cname) (.hex8 v)] ([linkerSym (sty.classEnd cname) (.hex8 0), Line.blank] ++ k)
        = { st with syms := st.syms ++ [(sty.classStart cname, Val.num v)] } := by
      simp only [execK, List.nil_append]
      unfold linkerSym
      rw [step_assign_sym objs st _ _ _ _ _ _ hS ho.nd]; simp [eval]
    rw [e1]
    obtain ⟨t1, t2, t3, t4, t5⟩ := tailRun { st with syms := st.syms ++ [(sty.classStart cname, Val.num v)] } ⟨ho.cur, ho.nd⟩
    exact ⟨t1, t2, t3, t4, by rw [t5]; simp [lookupLast_snoc]⟩
  | none =>
    cases hf : vc.fixedSymbol with
    | some fs =>
      simp only []
      have e1 : execK objs st [linkerSym (sty.classStart cname) (.sym fs)] ([linkerSym (sty.classEnd cname) (.hex8 0), Line.blank] ++ k)
          = { st with syms := st.syms ++ [(sty.classStart cname, Val.num (ev fs))] } := by
        simp only [execK, List.nil_append]
        unfold linkerSym
        rw [step_assign_sym objs st _ _ _ _ _ _ hS ho.nd, eval_sym_num st fs (ev fs) (hfs fs hv hf)]
      rw [e1]
      obtain ⟨t1, t2, t3, t4, t5⟩ := tailRun { st with syms := st.syms ++ [(sty.classStart cname, Val.num (ev fs))] } ⟨ho.cur, ho.nd⟩
      exact ⟨t1, t2, t3, t4, by rw [t5]; simp [lookupLast_snoc]⟩
    | none =>
      simp only []
      rw [show (linkerSym (sty.classStart cname) (.hex8 0) ::
            (followedUsed cx vc).map (fun other => maxSelf (sty.classStart cname) (sty.classEnd other)))
          = [linkerSym (sty.classStart cname) (.hex8 0)] ++
            ((followedUsed cx vc).map sty.classEnd).map (fun o => maxSelf (sty.classStart cname) o) by simp [List.map_map, Function.comp_def],
        execK_append]
      have e1 : execK objs st [linkerSym (sty.classStart cname) (.hex8 0)]
          (((followedUsed cx vc).map sty.classEnd).map (fun o => maxSelf (sty.classStart cname) o) ++ ([linkerSym (sty.classEnd cname) (.hex8 0), Line.blank] ++ k))
          = { st with syms := st.syms ++ [(sty.classStart cname, Val.num 0)] } := by
        simp only [execK, List.nil_append]
        unfold linkerSym
        rw [step_assign_sym objs st _ _ _ _ _ _ hS ho.nd]; simp [eval]
      rw [e1]
      obtain ⟨m1, m2, m3, m4, _⟩ := max_run objs (sty.classStart cname) hS ev ((followedUsed cx vc).map sty.classEnd)
        { st with syms := st.syms ++ [(sty.classStart cname, Val.num 0)] } ⟨ho.cur, ho.nd⟩ 0 (by simp [lookupLast_snoc])
        (by
          intro o ho'
          obtain ⟨x, hx, rfl⟩ := List.mem_map.1 ho'
          refine ⟨endsOk_ne_dot _ (classEnd_ok sty x), Ne.symm (classStart_ne_classEnd sty cname x), ?_⟩
          simp only [lookupLast_snoc, classStart_ne_classEnd sty cname x, if_false]
          exact hfo hv hf x hx)
        ([linkerSym (sty.classEnd cname) (.hex8 0), Line.blank] ++ k)
      obtain ⟨t1, t2, t3, t4, t5⟩ := tailRun _ m1
      exact ⟨t1, by rw [t2, m3], by rw [t3, m4], t4, by rw [t5, m2]⟩

/-! ### the class end symbol after a member segment -/

theorem last1_segVramSize' (sty : Style) (n : Str) : lastN 1 (sty.segVramSize n) ≠ lastN 1 (sty.classEnd n) := by
  rw [last1_segVramSize, last1_classEnd]; cases sty <;> decide

theorem classEnd_ne_vramSize (sty : Style) (c n : Str) : sty.classEnd c ≠ sty.segVramSize n :=
  ne_of_lastN 1 (by rw [last1_classEnd, last1_segVramSize]; cases sty <;> decide)
theorem classEnd_ne_romSize (sty : Style) (c n : Str) : sty.classEnd c ≠ sty.segRomSize n :=
  ne_of_lastN 1 (by rw [last1_classEnd, last1_segRomSize]; cases sty <;> decide)

/-- **the class end symbol accumulates the members' VRAM ends**: after the statements that
follow the output sections of a member segment of class `c`, the class end symbol holds the
maximum of its previous value and the segment's VRAM end (the location counter there). -/
theorem tail_class_end (objs : List InSec) (cx : Ctx) (seg : Segment) (c : Str) (hc : seg.vramClass = some c)
    (st : St) (ho : Outside st) (r0 : Nat) (hr : lookupLast romPos st.syms = some (.num r0))
    (e0 : Nat) (he : lookupLast (cx.d.settings.style.classEnd c) st.syms = some (.num e0)) (k : List Line) :
    lookupLast (cx.d.settings.style.classEnd c) (execK objs st (segTail cx seg) k).syms
      = some (.num (max e0 (alignO seg.segmentEndAlign st.dot))) := by
  obtain ⟨st2, hsplit, ho2, hd2, hk2⟩ := tail_split objs cx seg st ho r0 hr k
  rw [hsplit]
  generalize hsty : cx.d.settings.style = sty at *
  have hce := classEnd_ok sty c
  have he2 : lookupLast (sty.classEnd c) st2.syms = some (.num e0) := by rw [hk2 _ (ne_romPos hce)]; exact he
  -- the lines in front of the `MAX` statement
  let A : List Line := symEndSize (sty.segVramStart seg.name) (sty.segVramEnd seg.name) (sty.segVramSize seg.name) Expr.dot
      ++ symEndSize (sty.segRomStart seg.name) (sty.segRomEnd seg.name) (sty.segRomSize seg.name) (.sym c!"__romPos")
      ++ [Line.blank]
  have hform : tailSyms sty seg = A ++ [Line.assign (sty.classEnd c) (.maxE (sty.classEnd c) (sty.segVramEnd seg.name)) false false false]
      ++ [Line.blank] := by
    unfold tailSyms; rw [hc]; simp [A, maxSelf]
  have hA : ∀ l ∈ A, OuterLine l ∧ symOf l ≠ some (sty.classEnd c) := by
    intro l hl
    simp only [A, symEndSize, List.mem_append, List.mem_cons, List.mem_nil_iff, or_false] at hl
    rcases hl with ((rfl | rfl) | (rfl | rfl)) | rfl
    · exact ⟨.sym _ _ _ _ _ (endsOk_ne_dot _ (segVramEnd_ok _ _)), by simp [symOf, linkerSym, endsOk_ne_dot _ (segVramEnd_ok sty seg.name), vramEnd_ne_classEnd sty seg.name c]⟩
    · exact ⟨.sym _ _ _ _ _ (endsOk_ne_dot _ (segVramSize_ok _ _)), by simp [symOf, linkerSym, endsOk_ne_dot _ (segVramSize_ok sty seg.name), Ne.symm (classEnd_ne_vramSize sty c seg.name)]⟩
    · exact ⟨.sym _ _ _ _ _ (endsOk_ne_dot _ (segRomEnd_ok _ _)), by simp [symOf, linkerSym, endsOk_ne_dot _ (segRomEnd_ok sty seg.name), romEnd_ne_classEnd sty seg.name c]⟩
    · exact ⟨.sym _ _ _ _ _ (endsOk_ne_dot _ (segRomSize_ok _ _)), by simp [symOf, linkerSym, endsOk_ne_dot _ (segRomSize_ok sty seg.name), Ne.symm (classEnd_ne_romSize sty c seg.name)]⟩
    · exact ⟨.blank, by simp [symOf]⟩
  rw [hform, outer_assign_then_keep objs A [Line.blank] _ _ _ _ _ (endsOk_ne_dot _ hce)
    (fun l hl => (hA l hl).1) (fun l hl => by simp at hl; subst hl; exact .blank)
    (fun l hl => by simp at hl; subst hl; simp [symOf]) st2 ho2 k]
  congr 1
  -- evaluate `MAX(END, seg_VRAM_END)` in the state behind `A`
  have hVE : lookupLast (sty.segVramEnd seg.name) (execK objs st2 A
      ([Line.assign (sty.classEnd c) (.maxE (sty.classEnd c) (sty.segVramEnd seg.name)) false false false] ++ [Line.blank] ++ k)).syms
      = some (.num st2.dot) := by
    have hformA : A = [] ++ [Line.assign (sty.segVramEnd seg.name) .dot false false true]
        ++ ([linkerSym (sty.segVramSize seg.name) (.absSub (sty.segVramEnd seg.name) (sty.segVramStart seg.name))]
          ++ symEndSize (sty.segRomStart seg.name) (sty.segRomEnd seg.name) (sty.segRomSize seg.name) (.sym c!"__romPos")
          ++ [Line.blank]) := by
      simp [A, symEndSize, linkerSym]
    have hB : ∀ l ∈ ([linkerSym (sty.segVramSize seg.name) (.absSub (sty.segVramEnd seg.name) (sty.segVramStart seg.name))]
          ++ symEndSize (sty.segRomStart seg.name) (sty.segRomEnd seg.name) (sty.segRomSize seg.name) (.sym c!"__romPos")
          ++ [Line.blank]), OuterLine l ∧ symOf l ≠ some (sty.segVramEnd seg.name) := by
      intro l hl
      refine ⟨(hA l (by rw [hformA]; exact List.mem_append_right _ hl)).1, ?_⟩
      simp only [symEndSize, List.mem_append, List.mem_cons, List.mem_nil_iff, or_false] at hl
      rcases hl with (rfl | (rfl | rfl)) | rfl
      · simp [symOf, linkerSym, endsOk_ne_dot _ (segVramSize_ok sty seg.name), Ne.symm (vramEnd_ne_vramSize sty seg.name seg.name)]
      · simp [symOf, linkerSym, endsOk_ne_dot _ (segRomEnd_ok sty seg.name), Ne.symm (vramEnd_ne_romEnd sty seg.name seg.name)]
      · simp [symOf, linkerSym, endsOk_ne_dot _ (segRomSize_ok sty seg.name), Ne.symm (vramEnd_ne_romSize sty seg.name seg.name)]
      · simp [symOf]
    rw [hformA, outer_assign_then_keep objs [] _ _ _ _ _ _ (endsOk_ne_dot _ (segVramEnd_ok sty seg.name))
      (fun _ h => nomatch h) (fun l hl => (hB l hl).1) (fun l hl => (hB l hl).2) st2 ho2 _]
    simp [execK, eval]
  have hCE : lookupLast (sty.classEnd c) (execK objs st2 A
      ([Line.assign (sty.classEnd c) (.maxE (sty.classEnd c) (sty.segVramEnd seg.name)) false false false] ++ [Line.blank] ++ k)).syms
      = some (.num e0) :=
    (run_outer_keeps objs _ A (fun l hl => (hA l hl).1) (fun l hl => (hA l hl).2) st2 ho2 _).trans he2
  rw [eval_maxE _ _ _ e0 st2.dot (endsOk_ne_dot _ hce) (endsOk_ne_dot _ (segVramEnd_ok sty seg.name)) hCE hVE, hd2]

end Ld
end Slinky
