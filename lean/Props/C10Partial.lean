/-
  C10 in the image of the **main script of partial mode**: the members of a class with `fixed_vram`
  (`final_class_fixed_vram` through `C03.partial_main_shape`).
-/
import Props.C10Core
import Props.C05Partial
namespace Slinky.C10
open Slinky W Ld

/-- `final_class_fixed_vram` for the main script of partial mode. -/
theorem final_class_fixed_vram_partial (objs : List InSec) (d : Document) (o : Opts) (vc : Bool) (out : PartialOut)
    (h : generatePartial d o vc = .ok out)
    (hall : ∀ s ∈ d.segments, shouldEmit o s.cond = true → s.allocSections ≠ [])
    (defsyms : List (Str × Nat)) (folder : Str) (hfolder : d.settings.partialBuildSegmentsFolder = some folder)
    (pre post : List Segment) (seg : Segment) (hsplit : C03.partialSegs d o folder = pre ++ seg :: post)
    (c : Str) (vcl : VramClass) (v : Nat)
    (hfv : seg.fixedVram = none) (hfs : seg.fixedSymbol = none) (hfol : seg.followsSegment = none) (hcl : seg.vramClass = some c)
    (hfind : findClass d c = some vcl) (hcv : vcl.fixedVram = some v)
    (hcnt : assignCount (d.settings.style.classStart c) out.main ≤ 1) :
    ∃ os ∈ (link objs defsyms out.main).secs, os.name = c!"." ++ seg.name ∧ os.noload = false ∧ os.addr = v ∧
      (link objs defsyms out.main).sym (d.settings.style.classStart c) = some v := by
  obtain ⟨folder', ls, emitted, hf', hsegs, hmain⟩ := C03.partial_main_shape d o vc out h
  rw [hfolder] at hf'; injection hf' with hf'; subst hf'
  rw [hmain] at hcnt ⊢
  have hinc : shouldEmit o seg.cond = true :=
    C03.partialSegs_emitted d o folder seg (hsplit ▸ List.mem_append_right _ List.mem_cons_self)
  exact class_fixed_vram_core objs (C03.partialCx d o) rfl vc _ ls emitted _ hsegs (C03.partialSegs_alloc d o folder hall) defsyms
    pre post seg hsplit hinc c vcl v hfv hfs hfol hcl hfind hcv hcnt

end Slinky.C10
