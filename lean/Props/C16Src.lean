/-
  C16, "rejected when it has an unknown key at any level" — tied to the source text.

  `Src.keys_<Struct>` / `Src.deny_<Struct>` (lean/Src/Tables.lean) are written by
  tools/extract_tables.py from the field lists and the `#[serde(deny_unknown_fields)]`
  attributes of the *current* `*Serial` structs of /repo/slinky/src on every run.  The theorems
  say that the key tables of the model's decoder (`Slinkyv/Serial.lean`: what `checkKeys`
  accepts for each record) are exactly those sets, and that every record denies unknown fields.
-/
import Src.Tables
import Props.C16
namespace Slinky.C16

/-- two key lists name the same keys. -/
def sameKeys (a b : List Str) : Bool := a.all (· ∈ b) && b.all (· ∈ a)

theorem file_keys_src : sameKeys fileKeys Src.keys_FileInfoSerial = true ∧ Src.deny_FileInfoSerial = true := by decide
theorem segment_keys_src : sameKeys segmentKeys Src.keys_SegmentSerial = true ∧ Src.deny_SegmentSerial = true := by decide
theorem settings_keys_src : sameKeys settingsKeys Src.keys_SettingsSerial = true ∧ Src.deny_SettingsSerial = true := by decide
theorem gp_keys_src : sameKeys gpKeys Src.keys_GpInfoSerial = true ∧ Src.deny_GpInfoSerial = true := by decide
theorem class_keys_src : sameKeys classKeys Src.keys_VramClassSerial = true ∧ Src.deny_VramClassSerial = true := by decide
theorem assign_keys_src : sameKeys assignKeys Src.keys_SymbolAssignmentSerial = true ∧ Src.deny_SymbolAssignmentSerial = true := by decide
theorem required_keys_src : sameKeys requiredKeys Src.keys_RequiredSymbolSerial = true ∧ Src.deny_RequiredSymbolSerial = true := by decide
theorem assert_keys_src : sameKeys assertKeys Src.keys_AssertEntrySerial = true ∧ Src.deny_AssertEntrySerial = true := by decide
theorem document_keys_src : sameKeys documentKeys Src.keys_DocumentSerial = true ∧ Src.deny_DocumentSerial = true := by decide

/-- the source has these serial records and no other (a new one would need a decoder in the model). -/
theorem serial_structs_src : Src.serialStructs =
    ["AssertEntrySerial", "DocumentSerial", "FileInfoSerial", "GpInfoSerial", "RequiredSymbolSerial", "SegmentSerial",
     "SettingsSerial", "SymbolAssignmentSerial", "VramClassSerial"] := by decide

end Slinky.C16
