/-
  Props.ImageSegment — the linker semantics applied to one output section of a segment
  (`write_segment`) and to everything `add_segment` writes for an emitted segment.
-/
import Props.ImageGroup
namespace Slinky
namespace Ld
open W

/-- the location counter is outside every output section. -/
structure Outside (st : St) : Prop where
  cur : st.cur = none
  nd : st.inDiscard = false

/-- a symbol assignment or an empty line between output sections. -/
inductive OuterLine : Line → Prop
  | blank : OuterLine .blank
  | sym (s : Str) (e : Expr) (p h lk : Bool) (hs : s ≠ c!".") : OuterLine (.assign s e p h lk)

/-- such a statement touches nothing but the symbol table. -/
theorem step_outer (objs : List InSec) (l : Line) (hl : OuterLine l) (st : St) (ho : Outside st) (r : List Line) :
    Outside (step objs st l r) ∧ (step objs st l r).dot = st.dot ∧ (step objs st l r).secs = st.secs ∧
      (step objs st l r).placed = st.placed := by
  cases hl with
  | blank => simp only [step]; exact ⟨ho, trivial, trivial, trivial⟩
  | sym s e p h lk hs =>
    rw [step_assign_sym objs st s e p h lk r hs ho.nd]
    exact ⟨⟨ho.cur, ho.nd⟩, rfl, rfl, rfl⟩

theorem run_outer (objs : List InSec) : ∀ (ls : List Line) (_ : ∀ l ∈ ls, OuterLine l) (st : St) (_ : Outside st) (k : List Line),
    Outside (execK objs st ls k) ∧ (execK objs st ls k).dot = st.dot ∧ (execK objs st ls k).secs = st.secs ∧
      (execK objs st ls k).placed = st.placed := by
  intro ls
  induction ls with
  | nil => intro _ st ho k; exact ⟨ho, rfl, rfl, rfl⟩
  | cons l rest ih =>
    intro hall st ho k
    obtain ⟨o1, d1, s1, p1⟩ := step_outer objs l (hall l List.mem_cons_self) st ho (rest ++ k)
    obtain ⟨o2, d2, s2, p2⟩ := ih (fun x hx => hall x (List.mem_cons_of_mem _ hx)) _ o1 k
    simp only [execK]
    exact ⟨o2, by rw [d2, d1], by rw [s2, s1], by rw [p2, p1]⟩

theorem kindStart_outer (cx : Ctx) (seg : Segment) (noload : Bool) : ∀ l ∈ kindStart cx seg noload, OuterLine l := by
  intro l hl
  unfold kindStart at hl
  split at hl
  · simp at hl
    rcases hl with rfl | rfl
    · exact .sym _ _ _ _ _ (endsOk_ne_dot _ (segVramStart_ok _ _))
    · exact .blank
  · simp at hl

theorem kindEnd_outer (cx : Ctx) (seg : Segment) (noload : Bool) : ∀ l ∈ kindEnd cx seg noload, OuterLine l := by
  intro l hl
  unfold kindEnd at hl
  split at hl
  · simp [symEndSize] at hl
    rcases hl with rfl | rfl | rfl
    · exact .blank
    · exact .sym _ _ _ _ _ (endsOk_ne_dot _ (segVramEnd_ok _ _))
    · exact .sym _ _ _ _ _ (endsOk_ne_dot _ (segVramSize_ok _ _))
  · simp at hl

theorem maxAlign_ge (sub : Option Nat) (l : List InSec) : 1 ≤ maxAlign sub l := by
  unfold maxAlign
  suffices h : ∀ (m : Nat), 1 ≤ m → 1 ≤ l.foldl (fun m i => max m (max i.align (effAlign sub i))) m from h 1 (Nat.le_refl 1)
  induction l with
  | nil => intro m hm; exact hm
  | cons i rest ih => intro m hm; exact ih _ (Nat.le_trans hm (Nat.le_max_left _ _))

/-- the core of `section_image`, for any lines of the shape
`outer symbols; header; {; (nothing that acts); inner statements; }; outer symbols`. -/
theorem section_core (objs : List InSec) (sty : Style) (wild : Bool) (ks ke fill body : List Line)
    (name : Str) (nl : Bool) (addr lma : Option Str) (sub : Option Nat)
    (hks : ∀ l ∈ ks, OuterLine l) (hke : ∀ l ∈ ke, OuterLine l)
    (hfill : ∀ (s : St) (kk : List Line), execK objs s fill kk = s)
    (hbody : ∀ l ∈ body, InnerLine sty wild l) (st : St) (ho : Outside st) (k : List Line) :
    ∃ (start end_ al : Nat) (new : List Placed) (st' : St),
      st' = execK objs st (ks ++ [Line.outHdr name nl addr lma sub, Line.blockOpen] ++ fill ++ body ++ [Line.blockClose] ++ ke) k ∧
      1 ≤ al ∧
      (∀ a, addr = some a → ∃ st₁ : St, st₁.dot = st.dot ∧ start = (operand st₁ a).getD st.dot) ∧
      (addr = none → start = Ld.alignUp st.dot al) ∧
      start ≤ end_ ∧ Outside st' ∧
      st'.placed = st.placed ++ new ∧ chainOk name start new end_ ∧ alignedAll sub new ∧
      ((st'.dot = end_ ∧ ∃ lmaV, st'.secs = st.secs ++ [⟨name, start, end_ - start, lmaV, nl, al⟩]) ∨
       (end_ = start ∧ st'.dot = st.dot ∧ st'.secs = st.secs)) := by
  have e1 : execK objs st (ks ++ [Line.outHdr name nl addr lma sub, Line.blockOpen] ++ fill ++ body ++ [Line.blockClose] ++ ke) k
      = execK objs (execK objs (execK objs (execK objs (execK objs st ks
            ([Line.outHdr name nl addr lma sub, Line.blockOpen] ++ (fill ++ (body ++ ([Line.blockClose] ++ (ke ++ k))))))
          [Line.outHdr name nl addr lma sub, Line.blockOpen] (fill ++ (body ++ ([Line.blockClose] ++ (ke ++ k)))))
          body ([Line.blockClose] ++ (ke ++ k)))
          [Line.blockClose] (ke ++ k))
          ke k := by
    simp only [execK_append, List.append_assoc, hfill]
  obtain ⟨o1, d1, s1, p1⟩ := run_outer objs _ hks st ho
    ([Line.outHdr name nl addr lma sub, Line.blockOpen] ++ (fill ++ (body ++ ([Line.blockClose] ++ (ke ++ k)))))
  generalize h1 : execK objs st ks _ = st1 at *
  -- the header
  generalize hk2 : (fill ++ (body ++ ([Line.blockClose] ++ (ke ++ k)))) = k2 at e1
  have e2 : ∃ (al start : Nat) (keep : Bool), 1 ≤ al ∧
      start = hdrStart st1 addr al ∧
      execK objs st1 [Line.outHdr name nl addr lma sub, Line.blockOpen] k2
        = { st1 with dot := start, cur := some ⟨name, start, lma.bind (operand st1), nl, sub, al, st1.dot, keep⟩ } := by
    refine ⟨maxAlign sub (willTake objs st1 (blockBody ([Line.blockOpen] ++ k2)) []), _,
      hasSymbol (blockBody ([Line.blockOpen] ++ k2)), maxAlign_ge sub _, rfl, ?_⟩
    simp only [execK, step, List.nil_append, List.cons_append]
  obtain ⟨al, start, keep, hal1, hstart, e2⟩ := e2
  generalize hc : (⟨name, start, lma.bind (operand st1), nl, sub, al, st1.dot, keep⟩ : Cur) = c at e2
  have hcn : c.name = name := by rw [← hc]
  have hca : c.addr = start := by rw [← hc]
  have hcd : c.dot0 = st1.dot := by rw [← hc]
  have hcnl : c.noload = nl := by rw [← hc]
  have hcal : c.align = al := by rw [← hc]
  generalize h2 : execK objs st1 [Line.outHdr name nl addr lma sub, Line.blockOpen] k2 = st2 at *
  have in2 : Inside c st2 := by rw [e2]; exact ⟨rfl, by rw [hca]; exact Nat.le_refl _, o1.nd⟩
  -- the statements between the braces
  have a3 := run_inner objs sty wild c body hbody st2 in2 ([Line.blockClose] ++ (ke ++ k))
  generalize h3 : execK objs st2 body _ = st3 at *
  obtain ⟨new, hnew, hchain, halg⟩ := a3.placed
  have hcs : c.subalign = sub := by rw [← hc]
  rw [hcs] at halg
  have hd2 : st2.dot = start := by rw [e2]
  have hp2 : st2.placed = st.placed := by rw [e2]; exact p1
  have hs2 : st2.secs = st.secs := by rw [e2]; exact s1
  rw [hd2, hcn] at hchain
  have hstartA : ∀ a, addr = some a → ∃ st₁ : St, st₁.dot = st.dot ∧ start = (operand st₁ a).getD st.dot := by
    intro a ha
    subst ha
    refine ⟨st1, d1, ?_⟩
    simp only [hdrStart] at hstart
    rw [hstart, d1]
    cases operand st1 a <;> rfl
  have hstartN : addr = none → start = Ld.alignUp st.dot al := by
    intro ha
    subst ha
    simp only [hdrStart] at hstart
    rw [hstart, d1]
  -- the closing brace
  by_cases hrm : (!c.keep && decide (st3.dot = c.addr)) = true
  · -- removed
    have e4 : execK objs st3 [Line.blockClose] (ke ++ k) = { st3 with cur := none, dot := c.dot0, emptied := true } := by
      simp only [execK, step, a3.inside.cur, List.nil_append]
      rw [if_pos hrm]
    obtain ⟨o5, d5, s5, p5⟩ := run_outer objs _ hke { st3 with cur := none, dot := c.dot0, emptied := true }
      ⟨rfl, a3.inside.nd⟩ k
    have hsz : st3.dot = start := by
      simp only [Bool.and_eq_true, decide_eq_true_eq] at hrm
      rw [← hca]; exact hrm.2
    refine ⟨start, start, al, new, _, rfl, hal1, hstartA, hstartN, Nat.le_refl _, ?_, ?_, ?_, halg, Or.inr ⟨rfl, ?_, ?_⟩⟩
    · rw [e1, e4]; exact o5
    · rw [e1, e4, p5]; simp only []; rw [hnew, hp2]
    · rw [hsz] at hchain; exact hchain
    · rw [e1, e4, d5]; simp only []; rw [hcd]; exact d1
    · rw [e1, e4, s5]; simp only []; rw [a3.secs, hs2]
  · -- recorded
    have e4 : execK objs st3 [Line.blockClose] (ke ++ k) = { st3 with cur := none, secs := st3.secs ++ [closedSec c st3.dot] } := by
      simp only [execK, step, a3.inside.cur, List.nil_append]
      rw [if_neg hrm]
    obtain ⟨o5, d5, s5, p5⟩ := run_outer objs _ hke { st3 with cur := none, secs := st3.secs ++ [closedSec c st3.dot] }
      ⟨rfl, a3.inside.nd⟩ k
    refine ⟨start, st3.dot, al, new, _, rfl, hal1, hstartA, hstartN, ?_, ?_, ?_, hchain, halg, Or.inl ⟨?_, c.lma, ?_⟩⟩
    · have := a3.mono; omega
    · rw [e1, e4]; exact o5
    · rw [e1, e4, p5]; simp only []; rw [hnew, hp2]
    · rw [e1, e4, d5]
    · rw [e1, e4, s5]; simp only [closedSec]; rw [a3.secs, hs2, hcn, hca, hcnl, hcal]

/-- `writeSegment_shape` with the optional `FILL` line as a list of its own. -/
theorem writeSegment_shape' (cx : Ctx) (seg : Segment) (secs : List Str) (noload : Bool) (ls : List Line)
    (h : writeSegment cx seg secs noload = .ok ls) :
    ∃ fill body, ls = segmentStart cx seg noload ++ fill ++ body ++ [.blockClose] ++ kindEnd cx seg noload ∧
      (fill = [] ∨ ∃ v, fill = [Line.fill v]) ∧
      ∀ l ∈ body, InnerLine cx.d.settings.style seg.wildcardSections l := by
  obtain ⟨body, hls, hbody⟩ := writeSegment_shape cx seg secs noload ls h
  cases hf : seg.fillValue with
  | none => rw [hf] at hls; exact ⟨[], body, hls, Or.inl rfl, hbody⟩
  | some v => rw [hf] at hls; exact ⟨[.fill v], body, hls, Or.inr ⟨v, rfl⟩, hbody⟩

/-- **one output section of a segment in the linked image.** For every object table and every
state of the link outside an output section: the section opens at the requested address —
the value of the address expression where the header gives one, otherwise the location
counter rounded up to an alignment `al ≥ 1` — everything its statements place lies in it, in
order and without overlap, and when it closes it is recorded with that address and the size
`end − start` (unless it is empty and holds no symbol, in which case ld removes it and the
location counter is what it was). -/
theorem section_image (objs : List InSec) (cx : Ctx) (seg : Segment) (secs : List Str) (noload : Bool) (ls : List Line)
    (h : writeSegment cx seg secs noload = .ok ls) (st : St) (ho : Outside st) (k : List Line) :
    ∃ (start end_ al : Nat) (new : List Placed) (st' : St) (name : Str) (addr : Option Str),
      st' = execK objs st ls k ∧
      name = (if noload then c!"." ++ seg.name ++ c!".noload" else c!"." ++ seg.name) ∧
      addr = (if noload then none else segAddr cx seg) ∧
      1 ≤ al ∧
      (∀ a, addr = some a → ∃ st₁ : St, st₁.dot = st.dot ∧ start = (operand st₁ a).getD st.dot) ∧
      (addr = none → start = Ld.alignUp st.dot al) ∧
      start ≤ end_ ∧ Outside st' ∧
      st'.placed = st.placed ++ new ∧ chainOk name start new end_ ∧ alignedAll seg.subalign new ∧
      ((st'.dot = end_ ∧ ∃ lmaV, st'.secs = st.secs ++ [⟨name, start, end_ - start, lmaV, noload, al⟩]) ∨
       (end_ = start ∧ st'.dot = st.dot ∧ st'.secs = st.secs)) := by
  obtain ⟨fill, body, hls, hfill, hbody⟩ := writeSegment_shape' cx seg secs noload ls h
  subst hls
  have hfillno : ∀ (s : St) (kk : List Line), execK objs s fill kk = s := by
    intro s kk
    rcases hfill with rfl | ⟨v, rfl⟩ <;> simp [execK, step]
  cases noload with
  | false =>
    obtain ⟨start, end_, al, new, st', h1, h2, h3, h4, h5, h6, h7, h8, h9, h10⟩ :=
      section_core objs cx.d.settings.style seg.wildcardSections (kindStart cx seg false) (kindEnd cx seg false)
        fill body
        (c!"." ++ seg.name) false (segAddr cx seg) (some (cx.d.settings.style.segRomStart seg.name)) seg.subalign
        (kindStart_outer cx seg false) (kindEnd_outer cx seg false) hfillno hbody st ho k
    refine ⟨start, end_, al, new, st', _, _, ?_, rfl, rfl, h2, h3, h4, h5, h6, h7, h8, h9, h10⟩
    rw [h1]; simp [segmentStart]
  | true =>
    obtain ⟨start, end_, al, new, st', h1, h2, h3, h4, h5, h6, h7, h8, h9, h10⟩ :=
      section_core objs cx.d.settings.style seg.wildcardSections (kindStart cx seg true) (kindEnd cx seg true)
        fill body
        (c!"." ++ seg.name ++ c!".noload") true none none seg.subalign
        (kindStart_outer cx seg true) (kindEnd_outer cx seg true) hfillno hbody st ho k
    refine ⟨start, end_, al, new, st', _, _, ?_, rfl, rfl, h2, h3, h4, h5, h6, h7, h8, h9, h10⟩
    rw [h1]; simp [segmentStart]

end Ld
end Slinky
