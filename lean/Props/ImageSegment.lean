/-
  Props.ImageSegment — the linker semantics applied to one output section of a segment
  (`write_segment`) and to everything `add_segment` writes for an emitted segment.
-/
import Props.ImageGroup
namespace Slinky
namespace Ld
open W

/-- the location counter is outside every output section. -/
structure Outside (st : St) : Prop where
  cur : st.cur = none
  nd : st.inDiscard = false

/-- a symbol assignment or an empty line between output sections. -/
inductive OuterLine : Line → Prop
  | blank : OuterLine .blank
  | sym (s : Str) (e : Expr) (p h lk : Bool) (hs : s ≠ c!".") : OuterLine (.assign s e p h lk)

/-- such a statement touches nothing but the symbol table. -/
theorem step_outer (objs : List InSec) (l : Line) (hl : OuterLine l) (st : St) (ho : Outside st) (r : List Line) :
    Outside (step objs st l r) ∧ (step objs st l r).dot = st.dot ∧ (step objs st l r).secs = st.secs ∧
      (step objs st l r).placed = st.placed := by
  cases hl with
  | blank => simp only [step]; exact ⟨ho, trivial, trivial, trivial⟩
  | sym s e p h lk hs =>
    rw [step_assign_sym objs st s e p h lk r hs ho.nd]
    exact ⟨⟨ho.cur, ho.nd⟩, rfl, rfl, rfl⟩

theorem run_outer (objs : List InSec) : ∀ (ls : List Line) (_ : ∀ l ∈ ls, OuterLine l) (st : St) (_ : Outside st) (k : List Line),
    Outside (execK objs st ls k) ∧ (execK objs st ls k).dot = st.dot ∧ (execK objs st ls k).secs = st.secs ∧
      (execK objs st ls k).placed = st.placed := by
  intro ls
  induction ls with
  | nil => intro _ st ho k; exact ⟨ho, rfl, rfl, rfl⟩
  | cons l rest ih =>
    intro hall st ho k
    obtain ⟨o1, d1, s1, p1⟩ := step_outer objs l (hall l List.mem_cons_self) st ho (rest ++ k)
    obtain ⟨o2, d2, s2, p2⟩ := ih (fun x hx => hall x (List.mem_cons_of_mem _ hx)) _ o1 k
    simp only [execK]
    exact ⟨o2, by rw [d2, d1], by rw [s2, s1], by rw [p2, p1]⟩

theorem kindStart_outer (cx : Ctx) (seg : Segment) (noload : Bool) : ∀ l ∈ kindStart cx seg noload, OuterLine l := by
  intro l hl
  unfold kindStart at hl
  split at hl
  · simp at hl
    rcases hl with rfl | rfl
    · exact .sym _ _ _ _ _ (endsOk_ne_dot _ (segVramStart_ok _ _))
    · exact .blank
  · simp at hl

theorem kindEnd_outer (cx : Ctx) (seg : Segment) (noload : Bool) : ∀ l ∈ kindEnd cx seg noload, OuterLine l := by
  intro l hl
  unfold kindEnd at hl
  split at hl
  · simp [symEndSize] at hl
    rcases hl with rfl | rfl | rfl
    · exact .blank
    · exact .sym _ _ _ _ _ (endsOk_ne_dot _ (segVramEnd_ok _ _))
    · exact .sym _ _ _ _ _ (endsOk_ne_dot _ (segVramSize_ok _ _))
  · simp at hl

theorem maxAlign_ge (sub : Option Nat) (l : List InSec) : 1 ≤ maxAlign sub l := by
  unfold maxAlign
  suffices h : ∀ (m : Nat), 1 ≤ m → 1 ≤ l.foldl (fun m i => max m (max i.align (effAlign sub i))) m from h 1 (Nat.le_refl 1)
  induction l with
  | nil => intro m hm; exact hm
  | cons i rest ih => intro m hm; exact ih _ (Nat.le_trans hm (Nat.le_max_left _ _))

theorem step_outer_syms (objs : List InSec) (l : Line) (hl : OuterLine l) (st : St) (ho : Outside st) (r : List Line) (n : Str)
    (hn : symOf l ≠ some n) : lookupLast n (step objs st l r).syms = lookupLast n st.syms := by
  cases hl with
  | blank => simp [step]
  | sym s e p h lk hs =>
    rw [step_assign_sym objs st s e p h lk r hs ho.nd]
    simp only [lookupLast_snoc]
    have : s ≠ n := fun e' => hn (by subst e'; simp [symOf, hs])
    simp [this]

theorem run_outer_keeps (objs : List InSec) (n : Str) : ∀ (ls : List Line) (_ : ∀ l ∈ ls, OuterLine l)
    (_ : ∀ l ∈ ls, symOf l ≠ some n) (st : St) (_ : Outside st) (k : List Line),
    lookupLast n (execK objs st ls k).syms = lookupLast n st.syms := by
  intro ls
  induction ls with
  | nil => intro _ _ st _ k; rfl
  | cons l rest ih =>
    intro hall hno st ho k
    obtain ⟨o1, _, _, _⟩ := step_outer objs l (hall l List.mem_cons_self) st ho (rest ++ k)
    simp only [execK]
    rw [ih (fun x hx => hall x (List.mem_cons_of_mem _ hx)) (fun x hx => hno x (List.mem_cons_of_mem _ hx)) _ o1 k]
    exact step_outer_syms objs l (hall l List.mem_cons_self) st ho _ n (hno l List.mem_cons_self)

theorem inner_ne_close (sty : Style) (wild : Bool) (l : Line) (h : InnerLine sty wild l) : l ≠ .blockClose := by
  cases h with
  | body hb => cases hb <;> simp [linkerSym]
  | blank => simp
  | alignDot a => simp [alignSymbol]
  | gp off p h => simp
  | symDot s hs => simp [linkerSym]
  | symSize s a b hs => simp [linkerSym]

theorem blockBody_prefix : ∀ (a b : List Line), (∀ l ∈ a, l ≠ .blockClose) → blockBody (a ++ .blockClose :: b) = a := by
  intro a
  induction a with
  | nil => intro b _; simp [blockBody]
  | cons x xs ih =>
    intro b h
    have hx : x ≠ .blockClose := h x List.mem_cons_self
    have := ih b (fun l hl => h l (List.mem_cons_of_mem _ hl))
    cases x <;> simp_all [blockBody]

theorem hasSymbol_of_mem (body : List Line) (l : Line) (hl : l ∈ body) (hs : (symOf l).isSome) : hasSymbol body = true := by
  unfold hasSymbol
  rw [List.any_eq_true]
  refine ⟨l, hl, ?_⟩
  cases l <;> simp_all [symOf]

/-- the core of `section_image`, for any lines of the shape
`outer symbols; header; {; (nothing that acts); inner statements; }; outer symbols`. -/
theorem section_core (objs : List InSec) (sty : Style) (wild : Bool) (ks ke fill body : List Line)
    (name : Str) (nl : Bool) (addr lma : Option Str) (sub : Option Nat)
    (hks : ∀ l ∈ ks, OuterLine l) (hke : ∀ l ∈ ke, OuterLine l)
    (hfill : ∀ (s : St) (kk : List Line), execK objs s fill kk = s)
    (hbody : ∀ l ∈ body, InnerLine sty wild l) (st : St) (ho : Outside st) (k : List Line) :
    ∃ (start end_ al : Nat) (new : List Placed) (st' : St),
      st' = execK objs st (ks ++ [Line.outHdr name nl addr lma sub, Line.blockOpen] ++ fill ++ body ++ [Line.blockClose] ++ ke) k ∧
      1 ≤ al ∧
      (∀ a, addr = some a → ∃ st₁ : St, st₁.dot = st.dot ∧ st₁.secs = st.secs ∧
        (∀ n, (∀ l ∈ ks, symOf l ≠ some n) → lookupLast n st₁.syms = lookupLast n st.syms) ∧
        start = (operand st₁ a).getD st.dot) ∧
      (addr = none → start = Ld.alignUp st.dot al) ∧
      start ≤ end_ ∧ Outside st' ∧
      st'.placed = st.placed ++ new ∧ chainOk name start new end_ ∧ alignedAll sub new ∧
      ((st'.dot = end_ ∧ ∃ lmaV, st'.secs = st.secs ++ [⟨name, start, end_ - start, lmaV, nl, al⟩]) ∨
       (end_ = start ∧ st'.dot = st.dot ∧ st'.secs = st.secs ∧
        ¬ ((∀ l ∈ fill, l ≠ Line.blockClose) ∧ ∃ l ∈ body, (symOf l).isSome))) ∧
      (∀ n, (∀ l ∈ ks, symOf l ≠ some n) → (∀ l ∈ body, symOf l ≠ some n) → (∀ l ∈ ke, symOf l ≠ some n) →
        lookupLast n st'.syms = lookupLast n st.syms) := by
  have e1 : execK objs st (ks ++ [Line.outHdr name nl addr lma sub, Line.blockOpen] ++ fill ++ body ++ [Line.blockClose] ++ ke) k
      = execK objs (execK objs (execK objs (execK objs (execK objs st ks
            ([Line.outHdr name nl addr lma sub, Line.blockOpen] ++ (fill ++ (body ++ ([Line.blockClose] ++ (ke ++ k))))))
          [Line.outHdr name nl addr lma sub, Line.blockOpen] (fill ++ (body ++ ([Line.blockClose] ++ (ke ++ k)))))
          body ([Line.blockClose] ++ (ke ++ k)))
          [Line.blockClose] (ke ++ k))
          ke k := by
    simp only [execK_append, List.append_assoc, hfill]
  obtain ⟨o1, d1, s1, p1⟩ := run_outer objs _ hks st ho
    ([Line.outHdr name nl addr lma sub, Line.blockOpen] ++ (fill ++ (body ++ ([Line.blockClose] ++ (ke ++ k)))))
  generalize h1 : execK objs st ks _ = st1 at *
  -- the header
  generalize hk2 : (fill ++ (body ++ ([Line.blockClose] ++ (ke ++ k)))) = k2 at e1
  have e2 : ∃ (al start : Nat) (keep : Bool), 1 ≤ al ∧ keep = hasSymbol (blockBody (Line.blockOpen :: k2)) ∧
      start = hdrStart st1 addr al ∧
      execK objs st1 [Line.outHdr name nl addr lma sub, Line.blockOpen] k2
        = { st1 with dot := start, cur := some ⟨name, start, lma.bind (operand st1), nl, sub, al, st1.dot, keep⟩ } := by
    refine ⟨maxAlign sub (willTake objs st1 (blockBody ([Line.blockOpen] ++ k2)) []), _,
      hasSymbol (blockBody ([Line.blockOpen] ++ k2)), maxAlign_ge sub _, rfl, rfl, ?_⟩
    simp only [execK, step, List.nil_append, List.cons_append]
  obtain ⟨al, start, keep, hal1, hkeepdef, hstart, e2⟩ := e2
  generalize hc : (⟨name, start, lma.bind (operand st1), nl, sub, al, st1.dot, keep⟩ : Cur) = c at e2
  have hcn : c.name = name := by rw [← hc]
  have hca : c.addr = start := by rw [← hc]
  have hcd : c.dot0 = st1.dot := by rw [← hc]
  have hcnl : c.noload = nl := by rw [← hc]
  have hcal : c.align = al := by rw [← hc]
  have hck : c.keep = keep := by rw [← hc]
  have hsy1 : st1.syms = st1.syms := rfl
  generalize h2 : execK objs st1 [Line.outHdr name nl addr lma sub, Line.blockOpen] k2 = st2 at *
  have in2 : Inside c st2 := by rw [e2]; exact ⟨rfl, by rw [hca]; exact Nat.le_refl _, o1.nd⟩
  -- the statements between the braces
  have a3 := run_inner objs sty wild c body hbody st2 in2 ([Line.blockClose] ++ (ke ++ k))
  generalize h3 : execK objs st2 body _ = st3 at *
  obtain ⟨new, hnew, hchain, halg⟩ := a3.placed
  have hcs : c.subalign = sub := by rw [← hc]
  rw [hcs] at halg
  have hd2 : st2.dot = start := by rw [e2]
  have hp2 : st2.placed = st.placed := by rw [e2]; exact p1
  have hs2 : st2.secs = st.secs := by rw [e2]; exact s1
  rw [hd2, hcn] at hchain
  have hstartA : ∀ a, addr = some a → ∃ st₁ : St, st₁.dot = st.dot ∧ st₁.secs = st.secs ∧
      (∀ n, (∀ l ∈ ks, symOf l ≠ some n) → lookupLast n st₁.syms = lookupLast n st.syms) ∧
      start = (operand st₁ a).getD st.dot := by
    intro a ha
    subst ha
    refine ⟨st1, d1, s1, ?_, ?_⟩
    · intro n hn
      have k1 := run_outer_keeps objs n ks hks hn st ho
        ([Line.outHdr name nl (some a) lma sub, Line.blockOpen] ++ (fill ++ (body ++ ([Line.blockClose] ++ (ke ++ k)))))
      rw [h1] at k1
      exact k1
    simp only [hdrStart] at hstart
    rw [hstart, d1]
    cases operand st1 a <;> rfl
  have hstartN : addr = none → start = Ld.alignUp st.dot al := by
    intro ha
    subst ha
    simp only [hdrStart] at hstart
    rw [hstart, d1]
  -- symbols nobody assigns are kept
  have hsyms3 : ∀ n, (∀ l ∈ ks, symOf l ≠ some n) → (∀ l ∈ body, symOf l ≠ some n) →
      lookupLast n st3.syms = lookupLast n st.syms := by
    intro n hn1 hn2
    have k1 := run_outer_keeps objs n ks hks hn1 st ho
      ([Line.outHdr name nl addr lma sub, Line.blockOpen] ++ (fill ++ (body ++ ([Line.blockClose] ++ (ke ++ k)))))
    rw [h1] at k1
    have k3 := run_inner_keeps objs sty wild c n body hbody hn2 st2 in2 ([Line.blockClose] ++ (ke ++ k))
    rw [h3] at k3
    rw [k3, e2]; exact k1
  -- a section with a symbol inside is never removed
  have hkept : (∀ l ∈ fill, l ≠ Line.blockClose) → (∃ l ∈ body, (symOf l).isSome) → keep = true := by
    intro hf ⟨l, hl, hs⟩
    rw [hkeepdef, ← hk2]
    have : Line.blockOpen :: (fill ++ (body ++ ([Line.blockClose] ++ (ke ++ k))))
        = (Line.blockOpen :: (fill ++ body)) ++ Line.blockClose :: (ke ++ k) := by simp
    rw [this, blockBody_prefix _ _ (by
      intro x hx
      rcases List.mem_cons.1 hx with rfl | hx
      · simp
      · rcases List.mem_append.1 hx with hx | hx
        · exact hf x hx
        · exact inner_ne_close sty wild x (hbody x hx))]
    exact hasSymbol_of_mem _ l (List.mem_cons_of_mem _ (List.mem_append_right _ hl)) hs
  -- the closing brace
  by_cases hrm : (!c.keep && decide (st3.dot = c.addr)) = true
  · -- removed
    have e4 : execK objs st3 [Line.blockClose] (ke ++ k) = { st3 with cur := none, dot := c.dot0, emptied := true } := by
      simp only [execK, step, a3.inside.cur, List.nil_append]
      rw [if_pos hrm]
    obtain ⟨o5, d5, s5, p5⟩ := run_outer objs _ hke { st3 with cur := none, dot := c.dot0, emptied := true }
      ⟨rfl, a3.inside.nd⟩ k
    have hsz : st3.dot = start := by
      simp only [Bool.and_eq_true, decide_eq_true_eq] at hrm
      rw [← hca]; exact hrm.2
    refine ⟨start, start, al, new, _, rfl, hal1, hstartA, hstartN, Nat.le_refl _, ?_, ?_, ?_, halg, Or.inr ⟨rfl, ?_, ?_, ?_⟩, ?_⟩
    · rw [e1, e4]; exact o5
    · rw [e1, e4, p5]; simp only []; rw [hnew, hp2]
    · rw [hsz] at hchain; exact hchain
    · rw [e1, e4, d5]; simp only []; rw [hcd]; exact d1
    · rw [e1, e4, s5]; simp only []; rw [a3.secs, hs2]
    · intro ⟨hf, hex⟩
      have := hkept hf hex
      simp only [Bool.and_eq_true, Bool.not_eq_true', decide_eq_true_eq] at hrm
      rw [hck, this] at hrm
      exact absurd hrm.1 (by simp)
    · intro n hn1 hn2 hn3
      rw [e1, e4]
      exact (run_outer_keeps objs n ke hke hn3 { st3 with cur := none, dot := c.dot0, emptied := true } ⟨rfl, a3.inside.nd⟩ k).trans (hsyms3 n hn1 hn2)
  · -- recorded
    have e4 : execK objs st3 [Line.blockClose] (ke ++ k) = { st3 with cur := none, secs := st3.secs ++ [closedSec c st3.dot] } := by
      simp only [execK, step, a3.inside.cur, List.nil_append]
      rw [if_neg hrm]
    obtain ⟨o5, d5, s5, p5⟩ := run_outer objs _ hke { st3 with cur := none, secs := st3.secs ++ [closedSec c st3.dot] }
      ⟨rfl, a3.inside.nd⟩ k
    refine ⟨start, st3.dot, al, new, _, rfl, hal1, hstartA, hstartN, ?_, ?_, ?_, hchain, halg, Or.inl ⟨?_, c.lma, ?_⟩, ?_⟩
    · have := a3.mono; omega
    · rw [e1, e4]; exact o5
    · rw [e1, e4, p5]; simp only []; rw [hnew, hp2]
    · rw [e1, e4, d5]
    · rw [e1, e4, s5]; simp only [closedSec]; rw [a3.secs, hs2, hcn, hca, hcnl, hcal]
    · intro n hn1 hn2 hn3
      rw [e1, e4]
      exact (run_outer_keeps objs n ke hke hn3 { st3 with cur := none, secs := st3.secs ++ [closedSec c st3.dot] } ⟨rfl, a3.inside.nd⟩ k).trans (hsyms3 n hn1 hn2)

/-- `writeSegment_shape` with the optional `FILL` line as a list of its own. -/
theorem writeSegment_shape' (cx : Ctx) (seg : Segment) (secs : List Str) (noload : Bool) (ls : List Line)
    (h : writeSegment cx seg secs noload = .ok ls) :
    ∃ fill body, ls = segmentStart cx seg noload ++ fill ++ body ++ [.blockClose] ++ kindEnd cx seg noload ∧
      (fill = [] ∨ ∃ v, fill = [Line.fill v]) ∧
      ∀ l ∈ body, InnerLine cx.d.settings.style seg.wildcardSections l := by
  obtain ⟨body, hls, hbody⟩ := writeSegment_shape cx seg secs noload ls h
  cases hf : seg.fillValue with
  | none => rw [hf] at hls; exact ⟨[], body, hls, Or.inl rfl, hbody⟩
  | some v => rw [hf] at hls; exact ⟨[.fill v], body, hls, Or.inr ⟨v, rfl⟩, hbody⟩

/-- **one output section of a segment in the linked image.** For every object table and every
state of the link outside an output section: the section opens at the requested address —
the value of the address expression where the header gives one, otherwise the location
counter rounded up to an alignment `al ≥ 1` — everything its statements place lies in it, in
order and without overlap, and when it closes it is recorded with that address and the size
`end − start` (unless it is empty and holds no symbol, in which case ld removes it and the
location counter is what it was). -/
theorem section_image (objs : List InSec) (cx : Ctx) (seg : Segment) (secs : List Str) (noload : Bool) (ls : List Line)
    (h : writeSegment cx seg secs noload = .ok ls) (st : St) (ho : Outside st) (k : List Line) :
    ∃ (start end_ al : Nat) (new : List Placed) (st' : St) (name : Str) (addr : Option Str),
      st' = execK objs st ls k ∧
      name = (if noload then c!"." ++ seg.name ++ c!".noload" else c!"." ++ seg.name) ∧
      addr = (if noload then none else segAddr cx seg) ∧
      1 ≤ al ∧
      (∀ a, addr = some a → ∃ st₁ : St, st₁.dot = st.dot ∧ st₁.secs = st.secs ∧
        (∀ n, (∀ l ∈ kindStart cx seg noload, symOf l ≠ some n) → lookupLast n st₁.syms = lookupLast n st.syms) ∧
        start = (operand st₁ a).getD st.dot) ∧
      (addr = none → start = Ld.alignUp st.dot al) ∧
      start ≤ end_ ∧ Outside st' ∧
      st'.placed = st.placed ++ new ∧ chainOk name start new end_ ∧ alignedAll seg.subalign new ∧
      ((st'.dot = end_ ∧ ∃ lmaV, st'.secs = st.secs ++ [⟨name, start, end_ - start, lmaV, noload, al⟩]) ∨
       (end_ = start ∧ st'.dot = st.dot ∧ st'.secs = st.secs)) := by
  obtain ⟨fill, body, hls, hfill, hbody⟩ := writeSegment_shape' cx seg secs noload ls h
  subst hls
  have hfillno : ∀ (s : St) (kk : List Line), execK objs s fill kk = s := by
    intro s kk
    rcases hfill with rfl | ⟨v, rfl⟩ <;> simp [execK, step]
  cases noload with
  | false =>
    obtain ⟨start, end_, al, new, st', h1, h2, h3, h4, h5, h6, h7, h8, h9, h10, _⟩ :=
      section_core objs cx.d.settings.style seg.wildcardSections (kindStart cx seg false) (kindEnd cx seg false)
        fill body
        (c!"." ++ seg.name) false (segAddr cx seg) (some (cx.d.settings.style.segRomStart seg.name)) seg.subalign
        (kindStart_outer cx seg false) (kindEnd_outer cx seg false) hfillno hbody st ho k
    refine ⟨start, end_, al, new, st', _, _, ?_, rfl, rfl, h2, h3, h4, h5, h6, h7, h8, h9, h10.imp id (fun x => ⟨x.1, x.2.1, x.2.2.1⟩)⟩
    rw [h1]; simp [segmentStart]
  | true =>
    obtain ⟨start, end_, al, new, st', h1, h2, h3, h4, h5, h6, h7, h8, h9, h10, _⟩ :=
      section_core objs cx.d.settings.style seg.wildcardSections (kindStart cx seg true) (kindEnd cx seg true)
        fill body
        (c!"." ++ seg.name ++ c!".noload") true none none seg.subalign
        (kindStart_outer cx seg true) (kindEnd_outer cx seg true) hfillno hbody st ho k
    refine ⟨start, end_, al, new, st', _, _, ?_, rfl, rfl, h2, h3, h4, h5, h6, h7, h8, h9, h10.imp id (fun x => ⟨x.1, x.2.1, x.2.2.1⟩)⟩
    rw [h1]; simp [segmentStart]

/-! ### a section with configured sections holds a symbol, so it is always recorded -/

theorem sectionLoop_first (f : Str → R (List Line)) (a : Str) (l : List Str) (r : List Line)
    (h : sectionLoop f (a :: l) = .ok r) : ∃ rs, f a = .ok rs ∧ ∀ x ∈ rs, x ∈ r := by
  cases l with
  | nil => simp only [sectionLoop] at h; exact ⟨r, h, fun x hx => hx⟩
  | cons b bs =>
    simp only [sectionLoop] at h
    split at h
    · contradiction
    · rename_i ra hra
      split at h
      · contradiction
      · rename_i rb hrb
        injection h with h
        subst h
        exact ⟨ra, hra, fun x hx => by simp [hx]⟩

/-- `writeSegment_shape'`, and when a section is configured and section symbols are written,
one of the inner statements assigns a symbol. -/
theorem writeSegment_shape'' (cx : Ctx) (seg : Segment) (secs : List Str) (noload : Bool) (ls : List Line)
    (h : writeSegment cx seg secs noload = .ok ls) :
    ∃ fill body, ls = segmentStart cx seg noload ++ fill ++ body ++ [.blockClose] ++ kindEnd cx seg noload ∧
      (fill = [] ∨ ∃ v, fill = [Line.fill v]) ∧
      (∀ l ∈ body, InnerLine cx.d.settings.style seg.wildcardSections l) ∧
      (secs ≠ [] → cx.emitSecSyms = true → ∃ l ∈ body, (symOf l).isSome) := by
  have hsh := writeSegment_shape' cx seg secs noload ls h
  unfold writeSegment at h
  split at h
  · contradiction
  · rename_i body hbody
    injection h with h
    refine ⟨(match seg.fillValue with | some v => [Line.fill v] | none => []), body, h.symm, ?_, ?_, ?_⟩
    · cases seg.fillValue
      · exact Or.inl rfl
      · exact Or.inr ⟨_, rfl⟩
    · obtain ⟨f2, b2, hls2, _, hb2⟩ := hsh
      -- the inner lines are those of the shape lemma: same list by the same computation
      intro l hl
      rcases sectionLoop_mem _ _ _ hbody l hl with h1 | ⟨s', _, rs, hrs, hls⟩
      · subst h1; exact .blank
      · split at hrs
        · contradiction
        · rename_i b hb
          injection hrs with hrs
          subst hrs
          simp only [List.mem_append] at hls
          rcases hls with (hls | hls) | hls
          · exact sectionSymStart_inner cx seg s' l hls
          · exact .body (emitSection_body cx seg s' secs b hb l hls)
          · exact sectionSymEnd_inner cx seg s' l hls
    · intro hne hsy
      cases secs with
      | nil => exact absurd rfl hne
      | cons a rest =>
        obtain ⟨rs, hrs, hsub⟩ := sectionLoop_first _ a rest body hbody
        split at hrs
        · contradiction
        · rename_i b hb
          injection hrs with hrs
          subst hrs
          refine ⟨linkerSym (cx.d.settings.style.secStart seg.name a) .dot, hsub _ ?_, ?_⟩
          · rw [groupStart_eq cx seg a hsy]; simp
          · simp [symOf, linkerSym, endsOk_ne_dot _ (secStart_ok _ _ _)]

/-- `section_image` for a section list that is not empty (and section symbols on): the output
section is always recorded. -/
theorem section_image_kept (objs : List InSec) (cx : Ctx) (seg : Segment) (secs : List Str) (noload : Bool) (ls : List Line)
    (h : writeSegment cx seg secs noload = .ok ls) (hne : secs ≠ []) (hsy : cx.emitSecSyms = true)
    (st : St) (ho : Outside st) (k : List Line) :
    ∃ (start end_ al : Nat) (new : List Placed) (st' : St) (name : Str) (addr : Option Str) (lmaV : Option Nat),
      st' = execK objs st ls k ∧
      name = (if noload then c!"." ++ seg.name ++ c!".noload" else c!"." ++ seg.name) ∧
      addr = (if noload then none else segAddr cx seg) ∧
      1 ≤ al ∧
      (∀ a, addr = some a → ∃ st₁ : St, st₁.dot = st.dot ∧ st₁.secs = st.secs ∧
        (∀ n, (∀ l ∈ kindStart cx seg noload, symOf l ≠ some n) → lookupLast n st₁.syms = lookupLast n st.syms) ∧
        start = (operand st₁ a).getD st.dot) ∧
      (addr = none → start = Ld.alignUp st.dot al) ∧
      start ≤ end_ ∧ Outside st' ∧
      st'.placed = st.placed ++ new ∧ chainOk name start new end_ ∧ alignedAll seg.subalign new ∧
      st'.dot = end_ ∧ st'.secs = st.secs ++ [⟨name, start, end_ - start, lmaV, noload, al⟩] := by
  obtain ⟨fill, body, hls, hfill, hbody, hsym⟩ := writeSegment_shape'' cx seg secs noload ls h
  subst hls
  have hfillno : ∀ (s : St) (kk : List Line), execK objs s fill kk = s := by
    intro s kk
    rcases hfill with rfl | ⟨v, rfl⟩ <;> simp [execK, step]
  have hfillnc : ∀ l ∈ fill, l ≠ Line.blockClose := by
    intro l hl
    rcases hfill with rfl | ⟨v, rfl⟩
    · cases hl
    · simp at hl; subst hl; simp
  cases noload with
  | false =>
    obtain ⟨start, end_, al, new, st', h1, h2, h3, h4, h5, h6, h7, h8, h9, h10, _⟩ :=
      section_core objs cx.d.settings.style seg.wildcardSections (kindStart cx seg false) (kindEnd cx seg false)
        fill body
        (c!"." ++ seg.name) false (segAddr cx seg) (some (cx.d.settings.style.segRomStart seg.name)) seg.subalign
        (kindStart_outer cx seg false) (kindEnd_outer cx seg false) hfillno hbody st ho k
    rcases h10 with ⟨hd, lmaV, hs⟩ | ⟨_, _, _, hno⟩
    · refine ⟨start, end_, al, new, st', _, _, lmaV, ?_, rfl, rfl, h2, h3, h4, h5, h6, h7, h8, h9, hd, hs⟩
      rw [h1]; simp [segmentStart]
    · exact absurd ⟨hfillnc, hsym hne hsy⟩ hno
  | true =>
    obtain ⟨start, end_, al, new, st', h1, h2, h3, h4, h5, h6, h7, h8, h9, h10, _⟩ :=
      section_core objs cx.d.settings.style seg.wildcardSections (kindStart cx seg true) (kindEnd cx seg true)
        fill body
        (c!"." ++ seg.name ++ c!".noload") true none none seg.subalign
        (kindStart_outer cx seg true) (kindEnd_outer cx seg true) hfillno hbody st ho k
    rcases h10 with ⟨hd, lmaV, hs⟩ | ⟨_, _, _, hno⟩
    · refine ⟨start, end_, al, new, st', _, _, lmaV, ?_, rfl, rfl, h2, h3, h4, h5, h6, h7, h8, h9, hd, hs⟩
      rw [h1]; simp [segmentStart]
    · exact absurd ⟨hfillnc, hsym hne hsy⟩ hno

/-! ### the ROM counter through one output section -/

def romPos : Str := c!"__romPos"

theorem romPos_last : romPos.getLast? = some 's' := by decide

theorem ne_romPos {s : Str} (h : endsOk s) : s ≠ romPos := endsOk_ne s romPos h romPos_last

theorem romPos_ne_dot : romPos ≠ c!"." := by decide

theorem inner_not_romPos (sty : Style) (wild : Bool) (l : Line) (h : InnerLine sty wild l) : symOf l ≠ some romPos := by
  cases h with
  | body hb =>
    cases hb with
    | input k p m s => simp [symOf]
    | pad n => simp [symOf]
    | offset nm =>
      have := ne_romPos (linkerOffset_ok sty nm)
      have h2 := endsOk_ne_dot _ (linkerOffset_ok sty nm)
      simp [symOf, linkerSym, this, h2]
  | blank => simp [symOf]
  | alignDot a => simp [symOf, alignSymbol]
  | gp off p h => simp [symOf, gp_ne_dot]; decide
  | symDot s hs => simp [symOf, linkerSym, endsOk_ne_dot _ hs, ne_romPos hs]
  | symSize s a b hs => simp [symOf, linkerSym, endsOk_ne_dot _ hs, ne_romPos hs]

theorem kindStart_not_romPos (cx : Ctx) (seg : Segment) (nl : Bool) : ∀ l ∈ kindStart cx seg nl, symOf l ≠ some romPos := by
  intro l hl
  unfold kindStart at hl
  split at hl
  · simp at hl
    rcases hl with rfl | rfl
    · simp [symOf, linkerSym, endsOk_ne_dot _ (segVramStart_ok _ _), ne_romPos (segVramStart_ok _ _)]
    · simp [symOf]
  · simp at hl

theorem kindEnd_not_romPos (cx : Ctx) (seg : Segment) (nl : Bool) : ∀ l ∈ kindEnd cx seg nl, symOf l ≠ some romPos := by
  intro l hl
  unfold kindEnd at hl
  split at hl
  · simp [symEndSize] at hl
    rcases hl with rfl | rfl | rfl
    · simp [symOf]
    · simp [symOf, linkerSym, endsOk_ne_dot _ (segVramEnd_ok _ _), ne_romPos (segVramEnd_ok _ _)]
    · simp [symOf, linkerSym, endsOk_ne_dot _ (segVramSize_ok _ _), ne_romPos (segVramSize_ok _ _)]
  · simp at hl

/-- **an output section of a segment never touches the ROM counter**, and a section that
holds a symbol is recorded when it closes. -/
theorem section_image_rom (objs : List InSec) (cx : Ctx) (seg : Segment) (secs : List Str) (noload : Bool) (ls : List Line)
    (h : writeSegment cx seg secs noload = .ok ls) (st : St) (ho : Outside st) (k : List Line) :
    lookupLast romPos (execK objs st ls k).syms = lookupLast romPos st.syms := by
  obtain ⟨fill, body, hls, hfill, hbody⟩ := writeSegment_shape' cx seg secs noload ls h
  subst hls
  have hfillno : ∀ (s : St) (kk : List Line), execK objs s fill kk = s := by
    intro s kk
    rcases hfill with rfl | ⟨v, rfl⟩ <;> simp [execK, step]
  cases noload with
  | false =>
    obtain ⟨start, end_, al, new, st', h1, _, _, _, _, _, _, _, _, _, hk⟩ :=
      section_core objs cx.d.settings.style seg.wildcardSections (kindStart cx seg false) (kindEnd cx seg false)
        fill body
        (c!"." ++ seg.name) false (segAddr cx seg) (some (cx.d.settings.style.segRomStart seg.name)) seg.subalign
        (kindStart_outer cx seg false) (kindEnd_outer cx seg false) hfillno hbody st ho k
    have := hk romPos (kindStart_not_romPos cx seg false) (fun l hl => inner_not_romPos _ _ l (hbody l hl)) (kindEnd_not_romPos cx seg false)
    rw [h1] at this
    simpa [segmentStart] using this
  | true =>
    obtain ⟨start, end_, al, new, st', h1, _, _, _, _, _, _, _, _, _, hk⟩ :=
      section_core objs cx.d.settings.style seg.wildcardSections (kindStart cx seg true) (kindEnd cx seg true)
        fill body
        (c!"." ++ seg.name ++ c!".noload") true none none seg.subalign
        (kindStart_outer cx seg true) (kindEnd_outer cx seg true) hfillno hbody st ho k
    have := hk romPos (kindStart_not_romPos cx seg true) (fun l hl => inner_not_romPos _ _ l (hbody l hl)) (kindEnd_not_romPos cx seg true)
    rw [h1] at this
    simpa [segmentStart] using this

end Ld
end Slinky
