import Props.Lemmas
namespace Slinky.C09
theorem placeholder : True := trivial
end Slinky.C09
