/-
  C09 — requested alignments are honoured in the linked image.
-/
import Props.Writer
import Props.C04
import Props.ImageSegment
namespace Slinky.C09
open Slinky W C04

/-! ### arithmetic of `ALIGN(x, a)` -/

theorem alignUp_ge (x a : Nat) : x ≤ alignUp x a := by
  unfold alignUp
  split
  · exact Nat.le_refl x
  · rename_i h
    have ha : 0 < a := by omega
    have := Nat.div_add_mod (x + a - 1) a
    have hm := Nat.mod_lt (x + a - 1) ha
    rw [Nat.mul_comm] at this
    omega

/-- `ALIGN(x, a)` is a multiple of `a`. -/
theorem alignUp_dvd (x a : Nat) (ha : 1 ≤ a) : a ∣ alignUp x a := by
  unfold alignUp
  split
  · rename_i h
    have : a = 1 := by omega
    subst this
    exact Nat.one_dvd x
  · exact Nat.dvd_mul_left a _

/-- aligning an already aligned value changes nothing. -/
theorem alignUp_of_dvd (x a : Nat) (h : a ∣ x) : alignUp x a = x := by
  unfold alignUp
  split
  · rfl
  · rename_i ha
    obtain ⟨k, rfl⟩ := h
    have ha0 : 0 < a := by omega
    have : (a * k + a - 1) / a = k := by
      have h1 : a * k + a - 1 = a * k + (a - 1) := by omega
      rw [h1, Nat.mul_add_div ha0]
      have : (a - 1) / a = 0 := Nat.div_eq_of_lt (by omega)
      omega
    rw [this, Nat.mul_comm]

/-- **both alignments hold when both are requested**: after `. = ALIGN(., a); . = ALIGN(., b)`
with `a` dividing `b` or `b` dividing `a` (in particular for powers of two) the result is a
multiple of both. -/
theorem align_both (x a b : Nat) (ha : 1 ≤ a) (hb : 1 ≤ b) (hab : a ∣ b ∨ b ∣ a) :
    a ∣ alignUp (alignUp x a) b ∧ b ∣ alignUp (alignUp x a) b := by
  refine ⟨?_, alignUp_dvd _ _ hb⟩
  rcases hab with h | h
  · exact Nat.dvd_trans h (alignUp_dvd _ _ hb)
  · have h1 : b ∣ alignUp x a := Nat.dvd_trans h (alignUp_dvd x a ha)
    rw [alignUp_of_dvd _ _ h1]
    exact alignUp_dvd x a ha

/-- powers of two are totally ordered by divisibility. -/
theorem pow2_dvd_or (i j : Nat) : 2 ^ i ∣ 2 ^ j ∨ 2 ^ j ∣ 2 ^ i := by
  rcases Nat.le_total i j with h | h
  · exact Or.inl (Nat.pow_dvd_pow 2 h)
  · exact Or.inr (Nat.pow_dvd_pow 2 h)

/-! ### where the script puts alignment statements -/

/-- **start of a section group**: `section_start_align` then that section's entry of
`sections_start_alignment` — both when both are given, neither when neither is — then (maybe)
`_gp`, then the start symbol: the symbol is taken *after* every requested alignment. -/
theorem group_start (cx : Ctx) (seg : Segment) (sec : Str) (h : cx.emitSecSyms = true) :
    sectionSymStart cx seg sec =
      (match seg.sectionStartAlign with | some a => [alignSymbol c!"." a] | none => [])
      ++ (match lookup sec seg.sectionsStartAlignment with | some a => [alignSymbol c!"." a] | none => [])
      ++ gpLine cx seg sec
      ++ [linkerSym (cx.d.settings.style.secStart seg.name sec) .dot] := by
  cases h1 : seg.sectionStartAlign <;> cases h2 : lookup sec seg.sectionsStartAlignment <;>
    simp [sectionSymStart, h, h1, h2]

/-- **end of a section group**: both end alignments (when given), then the end symbol and the size. -/
theorem group_end (cx : Ctx) (seg : Segment) (sec : Str) (h : cx.emitSecSyms = true) :
    sectionSymEnd cx seg sec =
      (match seg.sectionEndAlign with | some a => [alignSymbol c!"." a] | none => [])
      ++ (match lookup sec seg.sectionsEndAlignment with | some a => [alignSymbol c!"." a] | none => [])
      ++ [linkerSym (cx.d.settings.style.secEnd seg.name sec) .dot,
          linkerSym (cx.d.settings.style.secSize seg.name sec)
            (.absSub (cx.d.settings.style.secEnd seg.name sec) (cx.d.settings.style.secStart seg.name sec))] := by
  cases h1 : seg.sectionEndAlign <;> cases h2 : lookup sec seg.sectionsEndAlignment <;>
    simp [sectionSymEnd, h, symEndSize, h1, h2]

/-- is this line an alignment statement or does it request `SUBALIGN`? -/
def isAlign : Line → Bool
  | .assign _ (.alignE _ _) _ _ _ => true
  | .outHdr _ _ _ _ (some _) => true
  | _ => false

/-- **an absent (or `null`) option adds no alignment**: a segment none of whose six alignment
options is set produces no `ALIGN` and no `SUBALIGN` at all. -/
theorem absent_adds_nothing (cx : Ctx) (seg : Segment) (secs : List Str) (noload : Bool) (ls : List Line)
    (h : writeSegment cx seg secs noload = .ok ls)
    (h1 : seg.subalign = none) (h2 : seg.sectionStartAlign = none) (h3 : seg.sectionEndAlign = none)
    (h4 : seg.sectionsStartAlignment = []) (h5 : seg.sectionsEndAlignment = []) :
    ∀ l ∈ ls, isAlign l = false := by
  unfold writeSegment at h
  split at h
  · contradiction
  · rename_i body hbody
    injection h with h
    subst h
    intro l hl
    simp only [List.mem_append, List.mem_cons, List.mem_nil_iff, or_false] at hl
    rcases hl with (((hl | hl) | hl) | hl) | hl
    · unfold segmentStart kindStart at hl
      simp only [List.mem_append, List.mem_cons, List.mem_nil_iff, or_false] at hl
      rcases hl with hl | hl | hl
      · split at hl <;> simp at hl
        rcases hl with rfl | rfl <;> rfl
      · subst hl; cases noload <;> simp [isAlign, h1]
      · subst hl; rfl
    · split at hl <;> simp at hl
      subst hl; rfl
    · rcases sectionLoop_mem _ _ _ hbody l hl with hb | ⟨s, _, rs, hrs, hls⟩
      · subst hb; rfl
      · split at hrs
        · contradiction
        · rename_i b hb
          injection hrs with hrs
          subst hrs
          simp only [List.mem_append] at hls
          rcases hls with (hls | hls) | hls
          · unfold sectionSymStart gpLine at hls
            simp only [h2, h4, lookup] at hls
            split at hls
            · simp only [List.nil_append, List.mem_append, List.mem_cons, List.mem_nil_iff, or_false] at hls
              rcases hls with hls | hls
              · split at hls
                · simp at hls
                · split at hls <;> simp at hls
                  subst hls; rfl
              · subst hls; rfl
            · simp at hls
          · have := emitSection_body cx seg s secs b hb l hls
            cases this <;> rfl
          · unfold sectionSymEnd at hls
            simp only [h3, h5, lookup, symEndSize] at hls
            split at hls
            · simp at hls
              rcases hls with rfl | rfl <;> rfl
            · simp at hls
    · subst hl; rfl
    · unfold kindEnd at hl
      split at hl
      · simp [symEndSize] at hl
        rcases hl with rfl | rfl | rfl <;> rfl
      · simp at hl


/-! ### in the linked image (the linker semantics `Slinkyv.Ld`) -/

theorem alignO_dvd (o : Option Nat) (x a : Nat) (h : o = some a) (ha : 1 ≤ a) : a ∣ Ld.alignO o x := by
  subst h
  simp only [Ld.alignO, Ld.alignUp_eq]
  exact alignUp_dvd x a ha

/-- after both optional alignments the second request always holds and the first one holds
too when one of the two divides the other (always the case for powers of two). -/
theorem alignO_both (o₁ o₂ : Option Nat) (x b : Nat) (h₁ : o₁ = some b) (hb : 1 ≤ b)
    (h₂ : o₂ = none ∨ ∃ a, o₂ = some a ∧ 1 ≤ a ∧ (b ∣ a ∨ a ∣ b)) : b ∣ Ld.alignO o₂ (Ld.alignO o₁ x) := by
  subst h₁
  rcases h₂ with rfl | ⟨a, rfl, ha, hab⟩
  · simp only [Ld.alignO, Ld.alignUp_eq]; exact alignUp_dvd x b hb
  · simp only [Ld.alignO, Ld.alignUp_eq]; exact (align_both x b a hb ha hab).1

open Ld in
/-- **C09, image clause for a section group**: measured from the start of the output section
that contains it, the group's start symbol is a multiple of that section's entry of
`sections_start_alignment`, and of `section_start_align` as well when one of the two divides
the other (or only one is given); likewise its end symbol for the two end alignments — for
every object table and every state of the link. -/
theorem image_group_alignment (objs : List InSec) (cx : Ctx) (seg : Segment) (sec : Str) (hsy : cx.emitSecSyms = true)
    (body : List Line) (hb : ∀ l ∈ body, BodyLine cx.d.settings.style seg.wildcardSections l)
    (c : Cur) (st : St) (hin : Inside c st) (k : List Line) :
    ∃ (s e : Nat) (st' : St),
      st' = execK objs st (sectionSymStart cx seg sec ++ body ++ sectionSymEnd cx seg sec) k ∧
      lookupLast (cx.d.settings.style.secStart seg.name sec) st'.syms = some (.num s) ∧
      lookupLast (cx.d.settings.style.secEnd seg.name sec) st'.syms = some (.num e) ∧
      c.addr ≤ s ∧ c.addr ≤ e ∧
      (∀ a, lookup sec seg.sectionsStartAlignment = some a → 1 ≤ a → a ∣ (s - c.addr)) ∧
      (∀ b, seg.sectionStartAlign = some b → 1 ≤ b →
        (lookup sec seg.sectionsStartAlignment = none ∨ ∃ a, lookup sec seg.sectionsStartAlignment = some a ∧ 1 ≤ a ∧ (b ∣ a ∨ a ∣ b)) →
        b ∣ (s - c.addr)) ∧
      (∀ a, lookup sec seg.sectionsEndAlignment = some a → 1 ≤ a → a ∣ (e - c.addr)) ∧
      (∀ b, seg.sectionEndAlign = some b → 1 ≤ b →
        (lookup sec seg.sectionsEndAlignment = none ∨ ∃ a, lookup sec seg.sectionsEndAlignment = some a ∧ 1 ≤ a ∧ (b ∣ a ∨ a ∣ b)) →
        b ∣ (e - c.addr)) := by
  obtain ⟨s, e, new, st', h0, hs, _, _, _, _, _, h7, h8, _, _, _, _, m, _, he⟩ := group_image objs cx seg sec hsy body hb c st hin k
  refine ⟨s, e, st', h0, h7, h8, by omega, by omega, ?_, ?_, ?_, ?_⟩
  · intro a ha h1
    rw [hs, Nat.add_sub_cancel_left]
    exact alignO_dvd _ _ a ha h1
  · intro b hb h1 h2
    rw [hs, Nat.add_sub_cancel_left]
    exact alignO_both _ _ _ b hb h1 h2
  · intro a ha h1
    rw [he, Nat.add_sub_cancel_left]
    exact alignO_dvd _ _ a ha h1
  · intro b hb h1 h2
    rw [he, Nat.add_sub_cancel_left]
    exact alignO_both _ _ _ b hb h1 h2

open Ld in
/-- **C09, image clause for `subalign`**: with `subalign: n` every input section that the
statements of an output section of the segment place starts at a multiple of `n`. -/
theorem image_subalign (objs : List InSec) (cx : Ctx) (seg : Segment) (secs : List Str) (noload : Bool)
    (ls : List Line) (h : writeSegment cx seg secs noload = .ok ls) (st : St) (ho : Outside st) (k : List Line)
    (n : Nat) (hn : seg.subalign = some n) (h1 : 1 ≤ n) :
    ∃ new, (execK objs st ls k).placed = st.placed ++ new ∧ ∀ p ∈ new, n ∣ p.addr := by
  obtain ⟨start, end_, al, new, st', name, addr, h0, _, _, _, _, _, _, _, h8, _, h10, _⟩ := section_image objs cx seg secs noload ls h st ho k
  refine ⟨new, h0 ▸ h8, ?_⟩
  intro p hp
  have := h10 p hp
  rw [hn] at this
  exact this h1

end Slinky.C09
