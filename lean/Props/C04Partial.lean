/-
  C04 in the linked image, for the MAIN script of partial mode.

  `final_rom_core` is `C04.final_rom_symbols` with the writer context and the segment list left
  open: any script of the form `version comment ++ SECTIONS { __romPos = 0 ++ add_segment of some
  segments ++ whatever follows`.  The ordinary script is one instance (`final_rom_symbols`); the
  main script of partial mode is another: `partialSegments_main` shows that its segment part is
  `add_segment` (with the reference-to-partial-object context) of the emitted segments, each with
  its file list replaced by the one partial object — so the ROM symbols of the main script obey
  the same recurrence, over the sizes of the `.<segment>` output sections that the final link
  gives the partial objects' contents (`final_rom_symbols_partial`).
-/
import Props.C04Final
namespace Slinky.C04
open Slinky W Ld

/-- the ROM symbols in the image, for any script built around `add_segment` of a segment list. -/
theorem final_rom_core (objs : List InSec) (cx : Ctx) (hsy : cx.emitSecSyms = true) (vc : Bool)
    (segs : List Segment) (ls : List Line) (emitted : List Str) (T : List Line)
    (hsegs : addSegments cx [] segs = .ok (ls, emitted))
    (hall : ∀ s ∈ segs, shouldEmit cx.o s.cond = true → s.allocSections ≠ [])
    (defsyms : List (Str × Nat)) :
    let script := versionComment vc ++ (beginSections cx ++ (ls ++ T))
    ∃ zs : List (Segment × Nat),
      zs.map (·.1) = segs.filter (fun s => shouldEmit cx.o s.cond) ∧
      (∀ sz ∈ zs, ∃ os ∈ (link objs defsyms script).secs, os.name = c!"." ++ sz.1.name ∧ os.size = sz.2 ∧ os.noload = false) ∧
      ∀ (pre post : List (Segment × Nat)) (seg : Segment) (size : Nat), zs = pre ++ (seg, size) :: post →
        (assignCount (cx.d.settings.style.segRomStart seg.name) script ≤ 1 →
          (link objs defsyms script).sym (cx.d.settings.style.segRomStart seg.name)
            = some (alignO seg.segmentStartAlign (romFold 0 pre))) ∧
        (assignCount (cx.d.settings.style.segRomEnd seg.name) script ≤ 1 →
          (link objs defsyms script).sym (cx.d.settings.style.segRomEnd seg.name)
            = some (romFold 0 (pre ++ [(seg, size)]))) := by
  intro script
  show ∃ zs : List (Segment × Nat), _
  simp only [script]
  rw [link_eq]
  generalize carry _ = S0
  rw [execK_append, execK_quiet objs _ (versionComment_quiet vc)]
  rw [execK_append, execK_append]
  have hb : ∃ st1, st1 = execK objs { syms := S0 } (beginSections cx) (ls ++ T ++ []) ∧ Outside st1 ∧
      lookupLast Ld.romPos st1.syms = some (.num 0) := by
    refine ⟨_, rfl, ?_, ?_⟩
    · unfold beginSections
      cases cx.d.settings.hardcodedGpValue <;> simp [execK, step, setSym] <;> exact ⟨rfl, rfl⟩
    · unfold beginSections
      cases cx.d.settings.hardcodedGpValue <;> simp [execK, step, setSym, eval, lookupLast_snoc, lookupLast_snoc2, Ld.romPos]
  obtain ⟨st1, e1, o1, r1⟩ := hb
  rw [← e1]
  obtain ⟨zs, st', e, _, hz, _, hsecs, hsyms⟩ := segments_rom_symbols objs cx hsy segs [] ls emitted
    hsegs hall st1 o1 0 r1 (T ++ [])
  rw [← e]
  obtain ⟨extra, hx⟩ := execK_secs objs T st' []
  refine ⟨zs, hz, ?_, ?_⟩
  · intro sz hsz
    obtain ⟨os, hos, h1, h2, h3⟩ := hsecs sz hsz
    exact ⟨os, by simp only [imageOf]; rw [hx]; exact List.mem_append_left _ hos, h1, h2, h3⟩
  · intro pre post seg size hsplit
    obtain ⟨h1, h2, h3, h4⟩ := hsyms pre post seg size hsplit
    have hb0 : ∀ n, assignCount n (versionComment vc) = 0 := fun n => assignCount_quiet n _ (versionComment_quiet vc)
    constructor
    · intro hc
      simp only [assignCount_append, hb0] at hc
      rw [imageOf_sym, execK_keeps_count objs _ T st' [] (by omega), h1 (by omega)]
      rfl
    · intro hc
      simp only [assignCount_append, hb0] at hc
      rw [imageOf_sym, execK_keeps_count objs _ T st' [] (by omega), h2 (by omega)]
      rfl

/-- **the segment part of the main script of partial mode is `add_segment` of the emitted
segments, each with the one partial object as its file list.** -/
theorem partialSegments_main (d : Document) (o : Opts) (vc : Bool) (folder : Str) (esc : Opts → Str → Except ErrKind Str) :
    ∀ (segs : List Segment) (em : List Str) (ls : List Line) (em' : List Str) (ps : List (Str × List Line)),
      partialSegments d o vc folder esc em segs = .ok (ls, em', ps) →
      addSegments { d := d, o := o, refPartial := true, esc := esc } em
        ((segs.filter fun s => shouldEmit o s.cond).map (partialSegment folder)) = .ok (ls, em') := by
  intro segs
  induction segs with
  | nil =>
    intro em ls em' ps h
    simp only [partialSegments] at h
    injection h with h
    simp only [Prod.mk.injEq] at h
    obtain ⟨rfl, rfl, _⟩ := h
    rfl
  | cons seg rest ih =>
    intro em ls em' ps h
    unfold partialSegments at h
    by_cases hinc : shouldEmit o seg.cond = true
    · simp only [hinc, Bool.not_true, Bool.false_eq_true, if_false] at h
      split at h
      · contradiction
      · rename_i sub hsub
        split at h
        · contradiction
        · rename_i a em1 hadd
          split at h
          · contradiction
          · rename_i b em2 ps2 hrest
            injection h with h
            simp only [Prod.mk.injEq] at h
            obtain ⟨rfl, rfl, _⟩ := h
            simp only [List.filter_cons, hinc, if_true, List.map_cons, addSegments, hadd, ih em1 b em2 ps2 hrest]
    · have hex : shouldEmit o seg.cond = false := by
        cases hh : shouldEmit o seg.cond
        · rfl
        · exact absurd hh hinc
      simp only [hex, Bool.not_false, if_true] at h
      simpa [List.filter_cons, hex] using ih em ls em' ps h

/-- **C04 in the linked image, main script of partial mode.**  For every document whose emitted
segments list an allocatable section, every option set, object table (the partial objects with
the sections `ld -r` gave them) and `--defsym` table: in the image `Ld.link` computes for the main
script, the ROM start and end symbols of the emitted segments obey the documented recurrence over
the sizes of the `.<segment>` output sections — for every ROM symbol the script assigns once. -/
theorem final_rom_symbols_partial (objs : List InSec) (d : Document) (o : Opts) (vc : Bool) (out : PartialOut)
    (h : generatePartial d o vc = .ok out)
    (hall : ∀ s ∈ d.segments, shouldEmit o s.cond = true → s.allocSections ≠ [])
    (defsyms : List (Str × Nat)) :
    ∃ (folder : Str) (zs : List (Segment × Nat)),
      d.settings.partialBuildSegmentsFolder = some folder ∧
      zs.map (·.1) = (d.segments.filter (fun s => shouldEmit o s.cond)).map (partialSegment folder) ∧
      (∀ sz ∈ zs, ∃ os ∈ (link objs defsyms out.main).secs, os.name = c!"." ++ sz.1.name ∧ os.size = sz.2 ∧ os.noload = false) ∧
      ∀ (pre post : List (Segment × Nat)) (seg : Segment) (size : Nat), zs = pre ++ (seg, size) :: post →
        (assignCount (d.settings.style.segRomStart seg.name) out.main ≤ 1 →
          (link objs defsyms out.main).sym (d.settings.style.segRomStart seg.name)
            = some (alignO seg.segmentStartAlign (romFold 0 pre))) ∧
        (assignCount (d.settings.style.segRomEnd seg.name) out.main ≤ 1 →
          (link objs defsyms out.main).sym (d.settings.style.segRomEnd seg.name)
            = some (romFold 0 (pre ++ [(seg, size)]))) := by
  unfold generatePartial at h
  split at h
  · contradiction
  · rename_i folder hfolder
    simp only at h
    split at h
    · contradiction
    · rename_i ls emitted ps hps
      injection h with h
      subst h
      have hmain := partialSegments_main d o vc folder escapePath d.segments [] ls emitted ps hps
      generalize hcx : ({ d := d, o := o, refPartial := true } : Ctx) = cx at *
      have hd : cx.d = d := by rw [← hcx]
      have ho' : cx.o = o := by rw [← hcx]
      have hsy : cx.emitSecSyms = true := by rw [← hcx]
      have hform : versionComment vc ++ beginSections cx ++ ls ++ endSections cx emitted ++ topLevel d o
          = versionComment vc ++ (beginSections cx ++ (ls ++ (endSections cx emitted ++ topLevel d o))) := by
        simp [List.append_assoc]
      simp only [hform]
      have hall' : ∀ s ∈ (d.segments.filter fun s => shouldEmit o s.cond).map (partialSegment folder),
          shouldEmit cx.o s.cond = true → s.allocSections ≠ [] := by
        intro s hs _
        obtain ⟨s0, hs0, rfl⟩ := List.mem_map.1 hs
        obtain ⟨hm0, hi0⟩ := List.mem_filter.1 hs0
        exact hall s0 hm0 (by simpa using hi0)
      obtain ⟨zs, hz, hsecs, hsyms⟩ := final_rom_core objs cx hsy vc _ ls emitted (endSections cx emitted ++ topLevel d o)
        hmain hall' defsyms
      refine ⟨folder, zs, hfolder, ?_, hsecs, ?_⟩
      · rw [hz, ho']
        apply List.filter_eq_self.2
        intro s hs
        obtain ⟨s0, hs0, rfl⟩ := List.mem_map.1 hs
        obtain ⟨_, hi0⟩ := List.mem_filter.1 hs0
        simpa [partialSegment] using hi0
      · intro pre post seg size hsplit
        have := hsyms pre post seg size hsplit
        rw [hd] at this
        exact this

end Slinky.C04
