/-
  C04, the statements that move and record the ROM position — tied to the source text
  (lean/Src/Formats.lean, regenerated from linker_writer.rs / script_buffer.rs on every run).
-/
import Src.Formats
import Props.C04
namespace Slinky.C04

theorem rompos_init_src :
    (Line.assign c!"__romPos" (.hex 0) false false false).renderBody = fmt Src.lw__begin_sections_1 [] := by decide

theorem rompos_advance_src (name : Str) :
    (Line.addAssign c!"__romPos" (.sizeofE (c!"." ++ name))).renderBody = fmt Src.lw__add_segment_7 [.s name] := by
  simp [Line.renderBody, Expr.render, fmt, Src.lw__add_segment_7]

/-- `align_symbol("__romPos", a)` before and after the segment. -/
theorem rompos_align_src (a : Nat) :
    (alignSymbol c!"__romPos" a).renderBody
      = fmt Src.sb__align_symbol_0 [.s (fmt Src.lw__add_segment_3 []), .s (fmt Src.lw__add_segment_3 []), .n a]
    ∧ Src.lw__add_segment_3 = Src.lw__add_segment_8 := by
  constructor
  · simp [alignSymbol, Line.renderBody, Expr.render, fmt, Src.sb__align_symbol_0, Src.lw__add_segment_3]
  · decide

/-- `<seg>_ROM_START = __romPos` and `<seg>_ROM_END = __romPos`. -/
theorem rom_symbols_src (sym : Str) :
    (linkerSym sym (.sym c!"__romPos")).renderBody
      = fmt Src.sb__write_symbol_assignment_3 [.s sym, .s (fmt Src.lw__add_segment_5 [])]
    ∧ Src.lw__add_segment_5 = Src.lw__add_segment_11 := by
  constructor
  · simp [linkerSym, Line.renderBody, Expr.render, fmt, Src.sb__write_symbol_assignment_3, Src.lw__add_segment_5]
  · decide

/-- `<seg>_ROM_SIZE = ABSOLUTE(end - start)`. -/
theorem size_src (size end_ start : Str) :
    (linkerSym size (.absSub end_ start)).renderBody
      = fmt Src.sb__write_symbol_assignment_3 [.s size, .s (fmt Src.lw__write_sym_end_size_0 [.s end_, .s start])] := by
  simp [linkerSym, Line.renderBody, Expr.render, fmt, Src.sb__write_symbol_assignment_3, Src.lw__write_sym_end_size_0]

theorem counts_src : Src.lw__add_segment_count = 12 ∧ Src.lw__begin_sections_count = 3
    ∧ Src.lw__write_sym_end_size_count = 1 ∧ Src.sb__align_symbol_count = 1 := by decide

end Slinky.C04
