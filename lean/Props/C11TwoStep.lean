/-
  C11, the two-step clause over the linker semantics: `exec` (Slinkyv.Ld) places exactly what
  `takes` (Slinkyv.Ld2) lists; the two-step link of partial mode puts the input sections in
  the order of the one-step link when no listed section name is grabbed by the pattern of an
  earlier one — and does not otherwise (a concrete counterexample, `grab_breaks_order`).
-/
import Props.C11
namespace Slinky.C11
open Slinky Ld

/-! ### `exec` places what `takes` lists -/

def takenOf (st : St) : List InSec := st.placed.map (·.inp) ++ st.discarded

theorem isFree_eq (st : St) (i : InSec) : isFree st i = !isTaken (takenOf st) i := by
  unfold isFree isTaken takenOf
  simp [List.any_append, List.any_map, Bool.not_or, Function.comp_def]

theorem takes_congr (objs : List InSec) : ∀ (ls : List Line) (b d : Bool) (t1 t2 : List InSec),
    (∀ i, isTaken t1 i = isTaken t2 i) → takes objs b d t1 ls = takes objs b d t2 ls := by
  intro ls
  induction ls with
  | nil => intro b d t1 t2 _; rfl
  | cons l rest ih =>
    intro b d t1 t2 h
    have hsel : ∀ p m s w, takes.sel objs p m s w t1 = takes.sel objs p m s w t2 := by
      intro p m s w; unfold takes.sel; simp only [h]
    have hsec : ∀ s, takes.selSec objs s t1 = takes.selSec objs s t2 := by
      intro s; unfold takes.selSec; simp only [h]
    have hpat : ∀ s, takes.selPat objs s t1 = takes.selPat objs s t2 := by
      intro s; unfold takes.selPat; simp only [h]
    have happ : ∀ (x : List InSec) i, isTaken (t1 ++ x) i = isTaken (t2 ++ x) i := by
      intro x i
      have := h i
      unfold isTaken at this ⊢
      simp only [List.any_append, this]
    cases l <;> simp only [takes]
    all_goals first
      | exact ih _ _ _ _ h
      | (split
         · exact ih _ _ _ _ h
         · exact ih _ _ _ _ h)
      | skip
    · -- input
      rename_i k p m s w
      split
      · rw [hsel, ih _ _ _ _ (happ _)]
      · exact ih _ _ _ _ h
    · -- singleEntry
      rename_i s a
      rw [hsec, ih _ _ _ _ (happ _)]
    · -- discardPat
      rename_i pat
      split
      · rw [hpat]; exact ih _ _ _ _ (happ _)
      · exact ih _ _ _ _ h

theorem placeAll_fields (out : Str) (sub : Option Nat) : ∀ (l : List InSec) (st : St),
    (placeAll out sub st l).placed.map (·.inp) = st.placed.map (·.inp) ++ l ∧
    (placeAll out sub st l).discarded = st.discarded ∧
    (placeAll out sub st l).cur = st.cur ∧
    (placeAll out sub st l).inDiscard = st.inDiscard := by
  intro l
  induction l with
  | nil => intro st; simp [placeAll]
  | cons i rest ih =>
    intro st
    unfold placeAll
    obtain ⟨h1, h2, h3, h4⟩ := ih { st with dot := alignUp st.dot (effAlign sub i) + i.size, placed := st.placed ++ [⟨i, alignUp st.dot (effAlign sub i), out⟩] }
    refine ⟨?_, h2, h3, h4⟩
    rw [h1]
    simp

theorem isTaken_append_comm (a b c : List InSec) (i : InSec) : isTaken (a ++ c ++ b) i = isTaken (a ++ b ++ c) i := by
  unfold isTaken
  simp only [List.any_append]
  cases List.any a (fun x => x = i) <;> cases List.any b (fun x => x = i) <;> cases List.any c (fun x => x = i) <;> rfl

/-- **`exec` places exactly what `takes` lists, in that order** — for every script, object
table and state. -/
theorem exec_takes (objs : List InSec) : ∀ (ls : List Line) (st : St),
    (exec objs st ls).placed.map (·.inp)
      = st.placed.map (·.inp) ++ takes objs st.cur.isSome st.inDiscard (takenOf st) ls := by
  intro ls
  induction ls with
  | nil => intro st; simp [exec, takes]
  | cons l rest ih =>
    intro st
    unfold exec
    rw [ih]
    have hfree : ∀ (f : InSec → Bool), (objs.filter fun i => f i && isFree st i) = objs.filter fun i => f i && !isTaken (takenOf st) i := by
      intro f; simp only [isFree_eq]
    cases l with
    | input k p m s w =>
      simp only [step, takes]
      cases hc : st.cur with
      | none => simp [hc, takenOf]
      | some c =>
        simp only [Option.isSome_some, if_true]
        have hs : (objs.filter fun i => selects p m s w i && isFree st i) = takes.sel objs p m s w (takenOf st) := by
          unfold takes.sel; exact hfree _
        rw [hs]
        obtain ⟨h1, h2, h3, h4⟩ := placeAll_fields c.name c.subalign (takes.sel objs p m s w (takenOf st)) st
        rw [h1, h3, h4, hc, List.append_assoc]
        congr 2
        apply takes_congr
        intro i
        unfold takenOf at h1 h2 ⊢
        rw [h1, h2]
        exact isTaken_append_comm _ _ _ i
    | singleEntry sec a =>
      simp only [step, takes]
      have hs : (objs.filter fun i => decide (i.sec = sec) && isFree st i) = takes.selSec objs sec (takenOf st) := by
        unfold takes.selSec; exact hfree _
      rw [hs]
      obtain ⟨h1, h2, h3, h4⟩ := placeAll_fields sec none (takes.selSec objs sec (takenOf st)) { st with dot := (operand st a).getD st.dot }
      simp only at h1 h2 h3 h4
      rw [h1, h3, h4, List.append_assoc]
      congr 2
      apply takes_congr
      intro i
      unfold takenOf at h1 h2 ⊢
      simp only
      rw [h1, h2]
      exact isTaken_append_comm _ _ _ i
    | discardPat pat =>
      simp only [step, takes]
      cases hd : st.inDiscard with
      | false => simp [takenOf, hd]
      | true =>
        simp only [if_true]
        have hs : (objs.filter fun i => (decide (pat = c!"*") || decide (i.sec = pat)) && isFree st i) = takes.selPat objs pat (takenOf st) := by
          unfold takes.selPat; exact hfree _
        rw [hs]
        congr 1
        apply takes_congr
        intro i
        unfold takenOf
        simp only [List.append_assoc]
    | discardHdr => simp [step, takes, takenOf]
    | outHdr n nl a lma sub => simp [step, takes, takenOf]
    | blockClose =>
      simp only [step, takes]
      cases hc : st.cur with
      | none => simp [takenOf]
      | some c =>
        simp only [Option.isSome_some, if_true]
        split <;> simp [takenOf]
    | assign s e p h lk =>
      simp only [step, takes]
      split
      · rfl
      · split
        · split <;> simp [takenOf]
        · simp [setSym, takenOf]
    | addAssign s e =>
      simp only [step, takes]
      split
      · rfl
      · split
        · split <;> simp [takenOf]
        · split <;> simp [setSym, takenOf]
    | comment t => simp [step, takes]
    | blank => simp [step, takes]
    | sectionsKw => simp [step, takes]
    | blockOpen => simp [step, takes]
    | fill n => simp [step, takes]
    | entry e => simp [step, takes]
    | extern n => simp [step, takes]
    | assertL c m => simp [step, takes]
    | unknown t => simp [step, takes]

/-- the order of the one-step link is the order of the input sections in the image `Ld.exec` builds. -/
theorem oneStep_is_exec (objs : List InSec) (script : List Line) :
    (exec objs {} script).placed.map (·.inp) = oneStep objs script := by
  rw [exec_takes]
  rfl


/-! ### the two-step link of one segment -/

def secOfName (obj n : Str) : InSec := ⟨obj, none, n, 0, 1⟩

theorem secOfName_inj (obj a b : Str) (h : secOfName obj a = secOfName obj b) : a = b := by
  unfold secOfName at h
  injection h

/-- the statement of the main script for group `g` of the segment whose partial object is `obj`. -/
def mainStmt (obj : Str) (wild : Bool) (g : Str) : Line := .input false obj none g wild

/-- the pattern of group `a` also matches the name `b`. -/
def grabs (wild : Bool) (a b : Str) : Bool := if wild then a.isPrefixOf b else b = a

theorem selects_comp (obj g n : Str) (wild : Bool) : selects obj none g wild (secOfName obj n) = grabs wild g n := by
  unfold selects secOfName grabs
  simp

theorem relinkBlocks_obj (objs : List InSec) (obj : Str) : ∀ (groups : List (Str × List Line)) (taken : List InSec),
    ∀ c ∈ relinkBlocks objs obj taken groups, c.obj = obj ∧ c.name ∈ groups.map (·.1) := by
  intro groups
  induction groups with
  | nil => intro taken c hc; simp [relinkBlocks] at hc
  | cons gb rest ih =>
    intro taken c hc
    obtain ⟨g, body⟩ := gb
    unfold relinkBlocks at hc
    simp only at hc
    split at hc
    · obtain ⟨h1, h2⟩ := ih taken c hc
      exact ⟨h1, List.mem_cons_of_mem _ h2⟩
    · rcases List.mem_cons.1 hc with rfl | hc
      · exact ⟨rfl, List.mem_cons_self⟩
      · obtain ⟨h1, h2⟩ := ih _ c hc
        exact ⟨h1, List.mem_cons_of_mem _ h2⟩

theorem takeSeq_append (objs : List InSec) : ∀ (a b : List Line) (taken : List InSec),
    takeSeq objs taken (a ++ b) = takeSeq objs taken a ++ takeSeq objs (taken ++ takeSeq objs taken a) b := by
  intro a
  induction a with
  | nil => intro b taken; simp [takeSeq]
  | cons l rest ih =>
    intro b taken
    cases l <;> simp only [List.cons_append, takeSeq, ih, List.append_assoc]

/-- what the composites of a relocatable link hold, one after the other, is what the statements
of all its output sections take. -/
theorem relinkBlocks_items (objs : List InSec) (obj : Str) : ∀ (groups : List (Str × List Line)) (taken : List InSec),
    (relinkBlocks objs obj taken groups).flatMap (·.items) = takeSeq objs taken (groups.flatMap (·.2)) := by
  intro groups
  induction groups with
  | nil => intro taken; simp [relinkBlocks, takeSeq]
  | cons gb rest ih =>
    intro taken
    obtain ⟨g, body⟩ := gb
    unfold relinkBlocks
    simp only [List.flatMap_cons, takeSeq_append]
    split
    · rename_i he
      have : takeSeq objs taken body = [] := List.isEmpty_iff.1 he
      rw [ih, this]
      simp
    · simp only [List.flatMap_cons, ih]

/-- the main script over the composites of one partial object: when no group's pattern grabs
the name of a later group, every statement selects the composite of its own group and nothing else. -/
theorem main_selects_own (objs : List InSec) (obj : Str) (wild : Bool) :
    ∀ (groups : List (Str × List Line)) (done : List Str) (takenP : List InSec),
      (groups.map (·.1)).Nodup → (∀ g ∈ groups.map (·.1), g ∉ done) →
      groups.Pairwise (fun a b => grabs wild a.1 b.1 = false) →
      takeSeq ((done.map (secOfName obj)) ++ (relinkBlocks objs obj takenP groups).map (·.sec)) (done.map (secOfName obj))
          (groups.map fun g => mainStmt obj wild g.1)
        = (relinkBlocks objs obj takenP groups).map (·.sec) := by
  intro groups
  induction groups with
  | nil => intro done takenP _ _ _; simp [relinkBlocks, takeSeq]
  | cons gb rest ih =>
    intro done takenP hnd hdone hpw
    obtain ⟨g, body⟩ := gb
    have hnd' : g ∉ rest.map (·.1) ∧ (rest.map (·.1)).Nodup := List.nodup_cons.1 hnd
    have hpw' := List.pairwise_cons.1 hpw
    -- composites of the later groups are not selected by `g`'s statement
    have hlater : ∀ (tk : List InSec) (tk' : List InSec), ∀ x ∈ (relinkBlocks objs obj tk rest).map (·.sec),
        (selects obj none g wild x && !isTaken tk' x) = false := by
      intro tk tk' x hx
      obtain ⟨c, hc, rfl⟩ := List.mem_map.1 hx
      obtain ⟨ho, hn⟩ := relinkBlocks_obj objs obj rest tk c hc
      obtain ⟨gb', hgb', hname⟩ := List.mem_map.1 hn
      have hg := hpw'.1 gb' hgb'
      simp only at hg
      unfold Comp.sec
      rw [ho, ← hname]
      have := selects_comp obj g gb'.1 wild
      unfold secOfName at this
      rw [this, hg]
      rfl
    -- composites already selected are taken
    have hdoneTaken : ∀ (extra : List InSec), ∀ x ∈ done.map (secOfName obj),
        (selects obj none g wild x && !isTaken (done.map (secOfName obj) ++ extra) x) = false := by
      intro extra x hx
      have : isTaken (done.map (secOfName obj) ++ extra) x = true := by
        unfold isTaken
        simp only [List.any_append, Bool.or_eq_true, List.any_eq_true, decide_eq_true_eq]
        exact Or.inl ⟨x, hx, rfl⟩
      rw [this]
      simp
    unfold relinkBlocks
    simp only [List.map_cons, takeSeq, mainStmt]
    split
    · -- the group takes nothing: no composite; the statement selects nothing
      have hsel : takes.sel (done.map (secOfName obj) ++ (relinkBlocks objs obj takenP rest).map (·.sec)) obj none g wild (done.map (secOfName obj)) = [] := by
        unfold takes.sel
        rw [List.filter_eq_nil_iff]
        intro x hx
        rcases List.mem_append.1 hx with hx | hx
        · have := hdoneTaken [] x hx
          simpa using this
        · have := hlater takenP (done.map (secOfName obj)) x hx
          simpa using this
      rw [hsel]
      simp only [List.nil_append, List.append_nil]
      exact ih done takenP hnd'.2 (fun g' hg' => hdone g' (by simp at hg' ⊢; exact Or.inr hg')) hpw'.2
    · -- the group's composite is selected, alone
      rename_i hne
      have hgd : g ∉ done := hdone g (by simp)
      have hsel : takes.sel (done.map (secOfName obj) ++ (secOfName obj g :: (relinkBlocks objs obj (takenP ++ takeSeq objs takenP body) rest).map (·.sec)))
          obj none g wild (done.map (secOfName obj)) = [secOfName obj g] := by
        unfold takes.sel
        rw [List.filter_append, List.filter_cons]
        have h1 : (done.map (secOfName obj)).filter (fun i => selects obj none g wild i && !isTaken (done.map (secOfName obj)) i) = [] := by
          rw [List.filter_eq_nil_iff]
          intro x hx
          have := hdoneTaken [] x hx
          simpa using this
        have h2 : ((relinkBlocks objs obj (takenP ++ takeSeq objs takenP body) rest).map (·.sec)).filter
            (fun i => selects obj none g wild i && !isTaken (done.map (secOfName obj)) i) = [] := by
          rw [List.filter_eq_nil_iff]
          intro x hx
          have := hlater _ (done.map (secOfName obj)) x hx
          simpa using this
        have h3 : (selects obj none g wild (secOfName obj g) && !isTaken (done.map (secOfName obj)) (secOfName obj g)) = true := by
          rw [selects_comp]
          have hg : grabs wild g g = true := by unfold grabs; split <;> simp
          have hnt : isTaken (done.map (secOfName obj)) (secOfName obj g) = false := by
            unfold isTaken
            rw [List.any_eq_false]
            intro x hx
            obtain ⟨d, hd, rfl⟩ := List.mem_map.1 hx
            simp only [decide_eq_true_eq]
            intro e
            exact hgd (secOfName_inj obj d g e ▸ hd)
          rw [hg, hnt]; rfl
        rw [h1, h2, h3]
        rfl
      have hsec : (Comp.sec ⟨obj, g, takeSeq objs takenP body⟩) = secOfName obj g := rfl
      simp only [List.map_cons, hsec]
      rw [hsel]
      have := ih (done ++ [g]) (takenP ++ takeSeq objs takenP body) hnd'.2
        (fun g' hg' hmem => by
          rcases List.mem_append.1 hmem with h | h
          · exact hdone g' (by simp at hg' ⊢; exact Or.inr hg') h
          · simp at h; subst h; exact hnd'.1 hg')
        hpw'.2
      simp only [List.map_append, List.map_cons, List.map_nil, List.append_assoc, List.singleton_append, mainStmt] at this
      simp only [List.singleton_append, List.cons.injEq, true_and]
      exact this


theorem relinkBlocks_names (objs : List InSec) (obj : Str) : ∀ (groups : List (Str × List Line)) (taken : List InSec),
    ((relinkBlocks objs obj taken groups).map (·.name)).Sublist (groups.map (·.1)) := by
  intro groups
  induction groups with
  | nil => intro taken; simp [relinkBlocks]
  | cons gb rest ih =>
    intro taken
    obtain ⟨g, body⟩ := gb
    unfold relinkBlocks
    simp only [List.map_cons]
    split
    · exact List.Sublist.cons _ (ih taken)
    · exact List.Sublist.cons_cons _ (ih _)

theorem filter_key_self {α β} [DecidableEq β] (key : α → β) : ∀ (l : List α) (c : α), (l.map key).Nodup → c ∈ l →
    l.filter (fun x => key x = key c) = [c] := by
  intro l
  induction l with
  | nil => intro c _ hc; cases hc
  | cons a as ih =>
    intro c hnd hc
    have hnd' : key a ∉ as.map key ∧ (as.map key).Nodup := List.nodup_cons.1 hnd
    rcases List.mem_cons.1 hc with rfl | hc
    · rw [List.filter_cons]
      simp only [decide_true, if_true, List.cons.injEq, true_and]
      rw [List.filter_eq_nil_iff]
      intro x hx
      simp only [decide_eq_true_eq]
      intro e
      exact hnd'.1 (List.mem_map.2 ⟨x, hx, e⟩)
    · rw [List.filter_cons]
      have : key a ≠ key c := fun e => hnd'.1 (e ▸ List.mem_map.2 ⟨c, hc, rfl⟩)
      simp only [this, decide_false, Bool.false_eq_true, if_false]
      exact ih c hnd'.2 hc

theorem flatMap_congr_mem {α β} (f g : α → List β) : ∀ (l : List α), (∀ x ∈ l, f x = g x) → l.flatMap f = l.flatMap g := by
  intro l
  induction l with
  | nil => intro _; rfl
  | cons a as ih =>
    intro h
    simp only [List.flatMap_cons]
    rw [h a List.mem_cons_self, ih (fun x hx => h x (List.mem_cons_of_mem _ hx))]

theorem expand_self (comps : List Comp) (hnd : (comps.map (·.sec)).Nodup) :
    expand comps (comps.map (·.sec)) = comps.flatMap (·.items) := by
  unfold expand
  rw [List.flatMap_map]
  apply flatMap_congr_mem
  intro c hc
  have h2 : (comps.filter fun c' => decide (c'.sec = c.sec)) = [c] := filter_key_self (fun c : Comp => c.sec) comps c hnd hc
  rw [h2]
  simp

/-- **C11, two-step clause (one segment)**: `groups` are the output sections of the segment's
partial script with their statements; the main script places the partial object `obj` once per
group (`obj(g)` or `obj(g*)`). When the group names are pairwise different and no group's pattern
matches the name of a later group, the two-step link puts the input sections in exactly the
order in which the same statements, run in one link, take them — for every object table. -/
theorem two_step_segment_order (objs : List InSec) (obj : Str) (wild : Bool) (groups : List (Str × List Line))
    (hnd : (groups.map (·.1)).Nodup) (hpw : groups.Pairwise (fun a b => grabs wild a.1 b.1 = false)) :
    expand (relinkBlocks objs obj [] groups)
        (takeSeq ((relinkBlocks objs obj [] groups).map (·.sec)) [] (groups.map fun g => mainStmt obj wild g.1))
      = takeSeq objs [] (groups.flatMap (·.2)) := by
  have h := main_selects_own objs obj wild groups [] [] hnd (fun _ _ h => nomatch h) hpw
  simp only [List.map_nil, List.nil_append] at h
  rw [h, expand_self, relinkBlocks_items]
  -- the composites have pairwise different names
  have hsub := relinkBlocks_names objs obj groups []
  have hn : ((relinkBlocks objs obj [] groups).map (·.name)).Nodup := List.Nodup.sublist hsub hnd
  have hobj := relinkBlocks_obj objs obj groups []
  rw [List.nodup_iff_pairwise_ne] at hn ⊢
  rw [List.pairwise_map] at hn ⊢
  refine List.Pairwise.imp_of_mem ?_ hn
  intro a b ha hb hne e
  apply hne
  unfold Comp.sec at e
  injection e

/-! ### whole scripts: `takes` on a script without single-entry sections and `/DISCARD/` -/

/-- the input statements that sit inside output sections. -/
def blockInputs : Bool → List Line → List Line
  | _, [] => []
  | b, l :: rest =>
    match l with
    | .outHdr _ _ _ _ _ => blockInputs true rest
    | .blockClose => blockInputs false rest
    | .input k p m s w => if b then .input k p m s w :: blockInputs b rest else blockInputs b rest
    | _ => blockInputs b rest

def plain : Line → Bool
  | .singleEntry _ _ => false
  | .discardHdr => false
  | .discardPat _ => false
  | _ => true

theorem takes_plain (objs : List InSec) : ∀ (ls : List Line) (b : Bool) (taken : List InSec), (∀ l ∈ ls, plain l = true) →
    takes objs b false taken ls = takeSeq objs taken (blockInputs b ls) := by
  intro ls
  induction ls with
  | nil => intro b taken _; rfl
  | cons l rest ih =>
    intro b taken hp
    have hrest : ∀ l ∈ rest, plain l = true := fun x hx => hp x (List.mem_cons_of_mem _ hx)
    have hl := hp l List.mem_cons_self
    cases l <;> simp only [takes, blockInputs, plain] at hl ⊢
    all_goals first
      | exact ih _ _ hrest
      | skip
    · -- blockClose
      split <;> exact ih _ _ hrest
    · -- input
      split
      · simp only [takeSeq, ih _ _ hrest]
      · exact ih _ _ hrest
    all_goals cases hl

/-- **C11, two-step clause (scripts of one segment)**: a partial script whose output sections
are `groups`, a main script part that places the partial object once per group inside its
output sections, an ordinary script part that holds the same statements inside its output
sections (`C11.same_statements`): the two-step link and the one-step link put the input
sections in the same order. -/
theorem two_step_same_order (objs : List InSec) (obj : Str) (wild : Bool) (groups : List (Str × List Line))
    (partialScript mainPart ordinaryPart : List Line)
    (hP : blocksOf partialScript = groups)
    (hM : blockInputs false mainPart = groups.map fun g => mainStmt obj wild g.1) (hMp : ∀ l ∈ mainPart, plain l = true)
    (hO : takeSeq objs [] (blockInputs false ordinaryPart) = takeSeq objs [] (groups.flatMap (·.2))) (hOp : ∀ l ∈ ordinaryPart, plain l = true)
    (hnd : (groups.map (·.1)).Nodup) (hpw : groups.Pairwise (fun a b => grabs wild a.1 b.1 = false)) :
    twoStep objs [(obj, partialScript)] mainPart = oneStep objs ordinaryPart := by
  unfold twoStep oneStep relink
  simp only [List.flatMap_cons, List.flatMap_nil, List.append_nil, hP]
  rw [takes_plain _ _ _ _ hMp, takes_plain _ _ _ _ hOp, hM, hO]
  exact two_step_segment_order objs obj wild groups hnd hpw


/-! ### whole documents: several segments, each with its own partial object -/

/-- some input statement of `B` selects `i`. -/
def selectable (B : List Line) (i : InSec) : Bool :=
  B.any fun l => match l with
    | .input _ p m s w => selects p m s w i
    | _ => false

theorem isTaken_filter (p : InSec → Bool) (taken : List InSec) (i : InSec) (hi : p i = true) :
    isTaken (taken.filter p) i = isTaken taken i := by
  unfold isTaken
  induction taken with
  | nil => rfl
  | cons a as ih =>
    rw [List.filter_cons]
    by_cases ha : p a = true
    · simp only [ha, if_true, List.any_cons, ih]
    · have : a ≠ i := fun e => ha (e ▸ hi)
      simp only [ha, Bool.false_eq_true, if_false, List.any_cons, ih, this, decide_false, Bool.false_or]

/-- **statements only see what they can select**: when every input statement of `B` selects
only input sections satisfying `p`, everything else — in the object table and among what is
already taken — is irrelevant. -/
theorem takeSeq_restrict (p : InSec → Bool) : ∀ (B : List Line) (L taken : List InSec),
    (∀ i, selectable B i = true → p i = true) →
    takeSeq L taken B = takeSeq (L.filter p) (taken.filter p) B := by
  intro B
  induction B with
  | nil => intro L taken _; rfl
  | cons l rest ih =>
    intro L taken h
    have hrest : ∀ i, selectable rest i = true → p i = true := by
      intro i hi
      apply h i
      unfold selectable at hi ⊢
      simp only [List.any_cons, hi, Bool.or_true]
    cases l with
    | input k pth m sc w =>
      simp only [takeSeq]
      have hsel : takes.sel L pth m sc w taken = takes.sel (L.filter p) pth m sc w (taken.filter p) := by
        unfold takes.sel
        rw [List.filter_filter]
        apply List.filter_congr
        intro i _
        by_cases hs : selects pth m sc w i = true
        · have hp : p i = true := h i (by unfold selectable; simp only [List.any_cons, hs, Bool.true_or])
          rw [isTaken_filter p taken i hp, hp]
          simp
        · simp [hs]
      have hsub : ∀ i ∈ takes.sel L pth m sc w taken, p i = true := by
        intro i hi
        unfold takes.sel at hi
        have := (List.mem_filter.1 hi).2
        simp only [Bool.and_eq_true] at this
        exact h i (by unfold selectable; simp only [List.any_cons, this.1, Bool.true_or])
      rw [ih L _ hrest, ← hsel]
      congr 2
      rw [List.filter_append]
      congr 1
      exact List.filter_eq_self.2 hsub
    | _ => simp only [takeSeq]; exact ih L taken hrest

theorem takeSeq_mem (objs : List InSec) : ∀ (B : List Line) (taken : List InSec) (i : InSec),
    i ∈ takeSeq objs taken B → i ∈ objs ∧ selectable B i = true := by
  intro B
  induction B with
  | nil => intro taken i h; simp [takeSeq] at h
  | cons l rest ih =>
    intro taken i h
    have lift : selectable rest i = true → selectable (l :: rest) i = true := by
      intro hr; unfold selectable at hr ⊢; simp only [List.any_cons, hr, Bool.or_true]
    cases l with
    | input k pth m sc w =>
      simp only [takeSeq] at h
      rcases List.mem_append.1 h with h | h
      · unfold takes.sel at h
        have := List.mem_filter.1 h
        simp only [Bool.and_eq_true] at this
        exact ⟨this.1, by unfold selectable; simp only [List.any_cons, this.2.1, Bool.true_or]⟩
      · obtain ⟨h1, h2⟩ := ih _ i h
        exact ⟨h1, lift h2⟩
    | _ =>
      simp only [takeSeq] at h
      obtain ⟨h1, h2⟩ := ih _ i h
      exact ⟨h1, lift h2⟩

/-- what is taken already does not matter when the statements cannot select any of it. -/
theorem takeSeq_fresh (objs : List InSec) (B : List Line) (T : List InSec)
    (hT : ∀ i ∈ T, selectable B i = false) : takeSeq objs T B = takeSeq objs [] B := by
  rw [takeSeq_restrict (selectable B) B objs T (fun _ h => h), takeSeq_restrict (selectable B) B objs [] (fun _ h => h)]
  congr 1
  simp only [List.filter_nil]
  rw [List.filter_eq_nil_iff]
  intro i hi
  rw [hT i hi]
  simp

/-- the scripts of one segment: its partial object, the segment's `wildcard_sections`, and the
output sections of its partial script with their statements. -/
structure SegScripts where
  obj : Str
  wild : Bool
  groups : List (Str × List Line)

def SegScripts.mainStmts (s : SegScripts) : List Line := s.groups.map fun g => mainStmt s.obj s.wild g.1
def SegScripts.body (s : SegScripts) : List Line := s.groups.flatMap (·.2)
def SegScripts.comps (objs : List InSec) (s : SegScripts) : List Comp := relinkBlocks objs s.obj [] s.groups
def SegScripts.ok (s : SegScripts) : Prop :=
  (s.groups.map (·.1)).Nodup ∧ s.groups.Pairwise (fun a b => grabs s.wild a.1 b.1 = false)

theorem mainStmts_select_own (s : SegScripts) (i : InSec) (h : selectable s.mainStmts i = true) : (decide (i.path = s.obj)) = true := by
  unfold selectable SegScripts.mainStmts at h
  rw [List.any_map] at h
  obtain ⟨g, _, hg⟩ := List.any_eq_true.1 h
  simp only [Function.comp, mainStmt] at hg
  unfold selects at hg
  simp only [Bool.and_eq_true, decide_eq_true_eq] at hg
  simp [hg.1.1]

theorem comps_obj (objs : List InSec) (s : SegScripts) : ∀ c ∈ s.comps objs, c.sec.path = s.obj := by
  intro c hc
  have := (relinkBlocks_obj objs s.obj s.groups [] c hc).1
  unfold Comp.sec
  exact this

/-- the main script over the composites of all partial objects: the statements of every segment
select the composites of that segment's object, in order. -/
theorem main_selects_document (objs : List InSec) : ∀ (segs : List SegScripts) (pre : List InSec) (TM : List InSec),
    (∀ s ∈ segs, s.ok) → (segs.map (·.obj)).Nodup →
    (∀ x ∈ pre, ∀ s ∈ segs, x.path ≠ s.obj) → (∀ x ∈ TM, ∀ s ∈ segs, x.path ≠ s.obj) →
    takeSeq (pre ++ (segs.flatMap fun s => (s.comps objs).map (·.sec))) TM (segs.flatMap (·.mainStmts))
      = segs.flatMap fun s => (s.comps objs).map (·.sec) := by
  intro segs
  induction segs with
  | nil => intro pre TM _ _ _ _; simp [takeSeq]
  | cons s rest ih =>
    intro pre TM hok hnd hpre hTM
    have hnd' := List.nodup_cons.1 hnd
    simp only [List.flatMap_cons]
    rw [takeSeq_append]
    -- the statements of `s` over the whole table = over the composites of `s` alone
    have hfirst : takeSeq (pre ++ ((s.comps objs).map (·.sec) ++ rest.flatMap fun s => (s.comps objs).map (·.sec))) TM s.mainStmts
        = (s.comps objs).map (·.sec) := by
      rw [takeSeq_restrict (fun i => decide (i.path = s.obj)) s.mainStmts _ TM (mainStmts_select_own s)]
      have hL : (pre ++ ((s.comps objs).map (·.sec) ++ rest.flatMap fun s => (s.comps objs).map (·.sec))).filter (fun i => decide (i.path = s.obj))
          = (s.comps objs).map (·.sec) := by
        rw [List.filter_append, List.filter_append]
        have h1 : pre.filter (fun i => decide (i.path = s.obj)) = [] := by
          rw [List.filter_eq_nil_iff]
          intro x hx
          simp [hpre x hx s List.mem_cons_self]
        have h2 : ((s.comps objs).map (·.sec)).filter (fun i => decide (i.path = s.obj)) = (s.comps objs).map (·.sec) := by
          rw [List.filter_eq_self]
          intro x hx
          obtain ⟨c, hc, rfl⟩ := List.mem_map.1 hx
          simp [comps_obj objs s c hc]
        have h3 : (rest.flatMap fun s => (s.comps objs).map (·.sec)).filter (fun i => decide (i.path = s.obj)) = [] := by
          rw [List.filter_eq_nil_iff]
          intro x hx
          obtain ⟨s', hs', hx'⟩ := List.mem_flatMap.1 hx
          obtain ⟨c, hc, rfl⟩ := List.mem_map.1 hx'
          have : c.sec.path = s'.obj := comps_obj objs s' c hc
          have hne : s'.obj ≠ s.obj := fun e => hnd'.1 (List.mem_map.2 ⟨s', hs', e⟩)
          simp [this, hne]
        rw [h1, h2, h3]
        simp
      have hT : TM.filter (fun i => decide (i.path = s.obj)) = [] := by
        rw [List.filter_eq_nil_iff]
        intro x hx
        simp [hTM x hx s List.mem_cons_self]
      rw [hL, hT]
      have := main_selects_own objs s.obj s.wild s.groups [] [] (hok s List.mem_cons_self).1 (fun _ _ h => nomatch h) (hok s List.mem_cons_self).2
      simpa [SegScripts.comps, SegScripts.mainStmts] using this
    rw [hfirst]
    congr 1
    have := ih (pre ++ (s.comps objs).map (·.sec)) (TM ++ (s.comps objs).map (·.sec))
      (fun s' hs' => hok s' (List.mem_cons_of_mem _ hs')) hnd'.2
      (by
        intro x hx s' hs'
        rcases List.mem_append.1 hx with hx | hx
        · exact hpre x hx s' (List.mem_cons_of_mem _ hs')
        · obtain ⟨c, hc, rfl⟩ := List.mem_map.1 hx
          rw [comps_obj objs s c hc]
          exact fun e => hnd'.1 (List.mem_map.2 ⟨s', hs', e.symm⟩))
      (by
        intro x hx s' hs'
        rcases List.mem_append.1 hx with hx | hx
        · exact hTM x hx s' (List.mem_cons_of_mem _ hs')
        · obtain ⟨c, hc, rfl⟩ := List.mem_map.1 hx
          rw [comps_obj objs s c hc]
          exact fun e => hnd'.1 (List.mem_map.2 ⟨s', hs', e.symm⟩))
    rw [List.append_assoc] at this
    exact this

/-- the one-step link of the statements of all segments, when no input section is selectable
by the statements of two segments: each segment's statements take what they take alone. -/
theorem one_step_document (objs : List InSec) : ∀ (segs : List SegScripts) (T : List InSec),
    segs.Pairwise (fun a b => ∀ i ∈ objs, selectable a.body i = true → selectable b.body i = false) →
    (∀ i ∈ T, ∀ s ∈ segs, selectable s.body i = false) →
    takeSeq objs T (segs.flatMap (·.body)) = segs.flatMap fun s => takeSeq objs [] s.body := by
  intro segs
  induction segs with
  | nil => intro T _ _; simp [takeSeq]
  | cons s rest ih =>
    intro T hpw hT
    have hpw' := List.pairwise_cons.1 hpw
    simp only [List.flatMap_cons]
    rw [takeSeq_append, takeSeq_fresh objs s.body T (fun i hi => hT i hi s List.mem_cons_self)]
    congr 1
    apply ih _ hpw'.2
    intro i hi s' hs'
    rcases List.mem_append.1 hi with hi | hi
    · exact hT i hi s' (List.mem_cons_of_mem _ hs')
    · obtain ⟨h1, h2⟩ := takeSeq_mem objs s.body [] i hi
      exact hpw'.1 s' hs' i h1 h2

theorem comps_sec_nodup (objs : List InSec) : ∀ (segs : List SegScripts), (∀ s ∈ segs, s.ok) → (segs.map (·.obj)).Nodup →
    ((segs.flatMap fun s => s.comps objs).map (·.sec)).Nodup := by
  intro segs
  induction segs with
  | nil => intro _ _; simp
  | cons s rest ih =>
    intro hok hnd
    have hnd' := List.nodup_cons.1 hnd
    simp only [List.flatMap_cons, List.map_append]
    refine List.nodup_append.2 ⟨?_, ih (fun s' hs' => hok s' (List.mem_cons_of_mem _ hs')) hnd'.2, ?_⟩
    · -- within one object: different names
      have hsub := relinkBlocks_names objs s.obj s.groups []
      have hn : ((s.comps objs).map (·.name)).Nodup := List.Nodup.sublist hsub (hok s List.mem_cons_self).1
      rw [List.nodup_iff_pairwise_ne] at hn ⊢
      rw [List.pairwise_map] at hn ⊢
      refine List.Pairwise.imp_of_mem ?_ hn
      intro a b _ _ hne e
      apply hne
      unfold Comp.sec at e
      injection e
    · intro x hx y hy e
      subst e
      obtain ⟨c, hc, rfl⟩ := List.mem_map.1 hx
      obtain ⟨c', hc', e'⟩ := List.mem_map.1 hy
      obtain ⟨s', hs', hcs'⟩ := List.mem_flatMap.1 hc'
      have h1 := comps_obj objs s c hc
      have h2 := comps_obj objs s' c' hcs'
      rw [e'] at h2
      exact hnd'.1 (List.mem_map.2 ⟨s', hs', h2.symm.trans h1⟩)

/-- **C11, two-step clause (whole documents)**: every segment has its own partial object, its
group names are pairwise different and no group's pattern matches a later group's name, and no
input section is selectable by the statements of two segments (no file listed in two segments).
Then linking every partial script relocatably and the main script over the partial objects puts
all input sections in exactly the order of the one-step link — for every object table. -/
theorem two_step_document_order (objs : List InSec) (segs : List SegScripts)
    (hok : ∀ s ∈ segs, s.ok) (hobj : (segs.map (·.obj)).Nodup)
    (hdisj : segs.Pairwise (fun a b => ∀ i ∈ objs, selectable a.body i = true → selectable b.body i = false)) :
    expand (segs.flatMap fun s => s.comps objs)
        (takeSeq ((segs.flatMap fun s => s.comps objs).map (·.sec)) [] (segs.flatMap (·.mainStmts)))
      = takeSeq objs [] (segs.flatMap (·.body)) := by
  have hmain := main_selects_document objs segs [] [] hok hobj (fun _ h => nomatch h) (fun _ h => nomatch h)
  simp only [List.nil_append] at hmain
  have hmap : (segs.flatMap fun s => s.comps objs).map (·.sec) = segs.flatMap fun s => (s.comps objs).map (·.sec) := by
    rw [List.map_flatMap]
  rw [hmap, hmain, ← hmap, expand_self _ (comps_sec_nodup objs segs hok hobj),
    one_step_document objs segs [] hdisj (fun _ h => nomatch h), List.flatMap_assoc]
  apply flatMap_congr_mem
  intro s _
  exact relinkBlocks_items objs s.obj s.groups []

/-- the same for the scripts themselves: partial scripts whose output sections are the segments'
groups, a main script part whose statements inside output sections are the segments' statements
for their partial objects, an ordinary script part holding the segments' own statements. -/
theorem two_step_document_same_order (objs : List InSec) (segs : List SegScripts)
    (partials : List (Str × List Line)) (mainPart ordinaryPart : List Line)
    (hP : (partials.map fun p => (p.1, blocksOf p.2)) = segs.map fun s => (s.obj, s.groups))
    (hM : blockInputs false mainPart = segs.flatMap (·.mainStmts)) (hMp : ∀ l ∈ mainPart, plain l = true)
    (hO : takeSeq objs [] (blockInputs false ordinaryPart) = takeSeq objs [] (segs.flatMap (·.body)))
    (hOp : ∀ l ∈ ordinaryPart, plain l = true)
    (hok : ∀ s ∈ segs, s.ok) (hobj : (segs.map (·.obj)).Nodup)
    (hdisj : segs.Pairwise (fun a b => ∀ i ∈ objs, selectable a.body i = true → selectable b.body i = false)) :
    twoStep objs partials mainPart = oneStep objs ordinaryPart := by
  have hc : (partials.flatMap fun p => relink objs p.1 p.2) = segs.flatMap fun s => s.comps objs := by
    have h1 : (partials.flatMap fun p => relink objs p.1 p.2)
        = (partials.map fun p => (p.1, blocksOf p.2)).flatMap fun q => relinkBlocks objs q.1 [] q.2 := by
      rw [List.flatMap_map]; rfl
    rw [h1, hP, List.flatMap_map]
    rfl
  unfold twoStep oneStep
  simp only [hc]
  rw [takes_plain _ _ _ _ hMp, takes_plain _ _ _ _ hOp, hM, hO]
  exact two_step_document_order objs segs hok hobj hdisj

/-! ### ... and not otherwise: a listed section whose name starts with an earlier listed name -/

def exA (sec : Str) : InSec := ⟨c!"a.o", none, sec, 4, 4⟩
def exB (sec : Str) : InSec := ⟨c!"b.o", none, sec, 4, 4⟩
def exObjs : List InSec := [exA c!".text", exA c!".data", exA c!".rodata", exB c!".text", exB c!".data", exB c!".rodata"]
def exIn (p sec : Str) : Line := .input false p none sec true
/-- `alloc_sections: [.text, .data, .rodata, .data.rel.ro]`, files `a.o` and `b.o`, the latter with
`section_order: {.rodata: .data.rel.ro}` — the statements slinky writes for the four groups. -/
def exGroups : List (Str × List Line) :=
  [(c!".text", [exIn c!"a.o" c!".text", exIn c!"b.o" c!".text"]),
   (c!".data", [exIn c!"a.o" c!".data", exIn c!"b.o" c!".data"]),
   (c!".rodata", [exIn c!"a.o" c!".rodata"]),
   (c!".data.rel.ro", [exIn c!"a.o" c!".data.rel.ro", exIn c!"b.o" c!".rodata", exIn c!"b.o" c!".data.rel.ro"])]

/-- one link: `a.o(.rodata)` precedes `b.o(.rodata)`. -/
theorem ex_one_step : takeSeq exObjs [] (exGroups.flatMap (·.2))
    = [exA c!".text", exB c!".text", exA c!".data", exB c!".data", exA c!".rodata", exB c!".rodata"] := by decide

/-- two links: the main script's `seg.o(.data*)` also takes the partial object's `.data.rel.ro`
section (which holds `b.o(.rodata)`), so `b.o(.rodata)` now precedes `a.o(.rodata)`. -/
theorem ex_two_step : expand (relinkBlocks exObjs c!"seg.o" [] exGroups)
      (takeSeq ((relinkBlocks exObjs c!"seg.o" [] exGroups).map (·.sec)) [] (exGroups.map fun g => mainStmt c!"seg.o" true g.1))
    = [exA c!".text", exB c!".text", exA c!".data", exB c!".data", exB c!".rodata", exA c!".rodata"] := by decide

/-- **the two-step clause of C11 fails without the hypothesis of `two_step_segment_order`**
(known finding KF-C11-prefix-group; replayed against slinky and GNU ld by the corpus case of
the same name). -/
theorem grab_breaks_order : expand (relinkBlocks exObjs c!"seg.o" [] exGroups)
      (takeSeq ((relinkBlocks exObjs c!"seg.o" [] exGroups).map (·.sec)) [] (exGroups.map fun g => mainStmt c!"seg.o" true g.1))
    ≠ takeSeq exObjs [] (exGroups.flatMap (·.2)) := by
  rw [ex_one_step, ex_two_step]
  decide

/-- with exact section names (`wildcard_sections: false`) the hypothesis holds for these groups. -/
example : exGroups.Pairwise (fun a b => grabs false a.1 b.1 = false) ∧ (exGroups.map (·.1)).Nodup := by decide

end Slinky.C11
