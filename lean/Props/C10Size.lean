/-
  C10 in the linked image, for the whole ordinary script: **the size symbol of a class with `fixed_vram`** is the class end
  minus the class start (as a 32-bit value) — from `class_start_kept` (the start), `class_end_kept` (the end), and the first
  statements of `end_sections` (one `SIZE = END - START` per class with an emitted member).
-/
import Props.C10End
import Props.C18Final
namespace Slinky.C10
open Slinky W Ld

/-- a class `find_class` returns is among the declared names. -/
theorem findClass_name_mem (d : Document) (c : Str) (vcl : VramClass) (h : findClass d c = some vcl) :
    c ∈ d.vramClasses.map (·.name) := by
  have hm := Slinky.C04.findClass_mem d c vcl h
  unfold findClass at h
  have hp := List.find?_some h
  have : vcl.name = c := of_decide_eq_true hp
  exact List.mem_map.2 ⟨vcl, hm, this⟩

/-- **the class size symbol in the image of the whole script.** For every document in multi-segment mode whose emitted
segments have an allocatable section, every option set, object table and `--defsym` table, and every class with `fixed_vram: v`
and an emitted member: when the script assigns the class start and size symbols once and the class end symbol as often as the
writer does, the image holds `v` in the start symbol, a number `E` in the end symbol, and `E - v` (32-bit) in the size symbol. -/
theorem final_class_size (objs : List InSec) (d : Document) (o : Opts) (vc : Bool) (script : List Line)
    (hmulti : d.settings.singleSegmentMode = false)
    (h : generateNormal d o vc = .ok script)
    (hall : ∀ s ∈ d.segments, shouldEmit o s.cond = true → s.allocSections ≠ [])
    (defsyms : List (Str × Nat)) (c : Str) (vcl : VramClass) (v : Nat)
    (hused : ∃ s ∈ d.segments, shouldEmit o s.cond = true ∧ s.vramClass = some c)
    (hfind : findClass d c = some vcl) (hcv : vcl.fixedVram = some v)
    (hcs : assignCount (d.settings.style.classStart c) script ≤ 1)
    (hce : assignCount (d.settings.style.classEnd c) script ≤ endAssigns o c false d.segments)
    (hcz : assignCount (d.settings.style.classSize c) script ≤ 1) :
    ∃ E : Nat,
      (link objs defsyms script).sym (d.settings.style.classStart c) = some v ∧
      (link objs defsyms script).sym (d.settings.style.classEnd c) = some E ∧
      (link objs defsyms script).sym (d.settings.style.classSize c) = some ((E + M32 - v % M32) % M32) := by
  unfold generateNormal at h
  split at h
  · contradiction
  · rename_i body hbody
    injection h with h
    subst h
    unfold addAllSegments at hbody
    simp only [hmulti, Bool.false_eq_true, if_false] at hbody
    split at hbody
    · contradiction
    · rename_i ls emitted hsegs
      injection hbody with hbody
      subst hbody
      generalize hcx : ({ d := d, o := o } : Ctx) = cx at *
      have hd : cx.d = d := by rw [← hcx]
      have ho' : cx.o = o := by rw [← hcx]
      have hsy : cx.emitSecSyms = true := by rw [← hcx]
      have hin : c ∈ emitted := member_introduced cx c d.segments [] ls emitted hsegs (Or.inr (by rw [ho']; exact hused))
      -- the statements behind the segments: the sizes of the classes in front of `c`, the size of `c`, the rest
      obtain ⟨B1, B2, D, _, _, hshape⟩ := Slinky.C18.endSections_shape cx emitted
      have hcm : c ∈ (dedup (cx.d.vramClasses.map (·.name))).filter (· ∈ emitted) := by
        refine List.mem_filter.2 ⟨(mem_dedup _ _).2 ?_, decide_eq_true hin⟩
        rw [hd]; exact findClass_name_mem d c vcl hfind
      obtain ⟨L1, L2, hL⟩ := List.append_of_mem hcm
      generalize hf : (fun n => linkerSym (cx.d.settings.style.classSize n)
        (.sub (cx.d.settings.style.classEnd n) (cx.d.settings.style.classStart n))) = f at *
      have hsz : Slinky.C18.sizeLines cx emitted = L1.map f ++ ([f c] ++ L2.map f) := by
        unfold Slinky.C18.sizeLines
        rw [hf, hL]; simp
      generalize hR : (B1 ++ (cx.d.settings.sectionsAllowlist.map (fun x => Line.singleEntry x c!"0")
        ++ (B2 ++ (cx.d.settings.sectionsAllowlistExtra.map (fun x => Line.singleEntry x c!"0") ++ D)))) = R at *
      have hform : versionComment vc ++ (beginSections cx ++ ls ++ endSections cx emitted) ++ topLevel d o
          = versionComment vc ++ (beginSections cx ++ (ls ++ (L1.map f ++ ([f c] ++ (L2.map f ++ (R ++ topLevel d o)))))) := by
        rw [hshape, hsz]; simp [List.append_assoc]
      rw [hform] at hcs hce hcz ⊢
      have hb0 : ∀ n, assignCount n (versionComment vc) = 0 := fun n => Slinky.C04.assignCount_quiet n _ (Slinky.C04.versionComment_quiet vc)
      simp only [assignCount_append, hb0] at hcs hce hcz
      -- lower bounds: the segments assign the start once and the end `endAssigns` times; `f c` assigns the size
      have hlowE := class_end_lower cx c d.segments [] ls emitted hsegs
      rw [hd, ho'] at hlowE
      simp only [List.not_mem_nil, decide_false] at hlowE
      have hzne : cx.d.settings.style.classSize c ≠ c!"." := endsOk_ne_dot _ (classSize_ok _ _)
      have hfz : 1 ≤ assignCount (d.settings.style.classSize c) [f c] := by
        rw [← hf, ← hd]
        exact assignCount_pos (n := cx.d.settings.style.classSize c)
          (l := linkerSym (cx.d.settings.style.classSize c) (.sub (cx.d.settings.style.classEnd c) (cx.d.settings.style.classStart c)))
          (by simp) (Slinky.C04.symOf_linkerSym _ _ hzne)
      rw [link_eq]
      generalize carry _ = S0
      rw [execK_append, Slinky.C04.execK_quiet objs _ (Slinky.C04.versionComment_quiet vc)]
      rw [execK_append, execK_append]
      have hb : ∃ st1, st1 = execK objs { syms := S0 } (beginSections cx)
          (ls ++ (L1.map f ++ ([f c] ++ (L2.map f ++ (R ++ topLevel d o)))) ++ []) ∧ Outside st1 ∧
          lookupLast Ld.romPos st1.syms = some (.num 0) := by
        refine ⟨_, rfl, ?_, ?_⟩
        · unfold beginSections
          cases cx.d.settings.hardcodedGpValue <;> simp [execK, step, setSym] <;> exact ⟨rfl, rfl⟩
        · unfold beginSections
          cases cx.d.settings.hardcodedGpValue <;> simp [execK, step, setSym, eval, lookupLast_snoc, lookupLast_snoc2, Ld.romPos]
      obtain ⟨st1, e1, o1, r1⟩ := hb
      rw [← e1]
      generalize hK : (L1.map f ++ ([f c] ++ (L2.map f ++ (R ++ topLevel d o)))) ++ [] = K at *
      -- the start
      obtain ⟨stA, _, eA, oA, _, hSt, hSlow⟩ := class_start_kept objs cx hsy c vcl v (by rw [hd]; exact hfind) hcv d.segments [] ls emitted hsegs
        (by rw [ho']; exact hall) st1 o1 0 r1 K (fun hm => nomatch hm) (by rw [hd]; omega) (fun hm => nomatch hm)
      have hS1 := hSlow hin (fun hm => nomatch hm)
      rw [hd] at hS1
      -- the end
      obtain ⟨stB, _, E, _, eB, _, _, _, hEn, _⟩ := class_end_kept objs cx hsy c d.segments [] ls emitted hsegs
        (by rw [ho']; exact hall) st1 o1 0 r1 K 0 (fun hm => nomatch hm)
        (by rw [hd, ho']; simp only [List.not_mem_nil, decide_false]; omega)
      have hAB : stA = stB := eA.trans eB.symm
      subst hAB
      have hS := hSt hin
      have hE := hEn hin
      rw [hd] at hS hE
      rw [← eA]
      refine ⟨E, ?_, ?_, ?_⟩
      · rw [imageOf_sym, execK_keeps_count objs _ _ stA [] (by simp only [assignCount_append]; omega), hS]; rfl
      · rw [imageOf_sym, execK_keeps_count objs _ _ stA [] (by simp only [assignCount_append]; omega), hE]; rfl
      · rw [imageOf_sym, execK_append]
        have hsne : d.settings.style.classStart c ≠ c!"." := by rw [← hd]; exact endsOk_ne_dot _ (classStart_ok _ _)
        have hene : d.settings.style.classEnd c ≠ c!"." := by rw [← hd]; exact endsOk_ne_dot _ (classEnd_ok _ _)
        have hL1o : ∀ l ∈ L1.map f, OuterLine l := by
          intro l hl
          obtain ⟨n, _, rfl⟩ := List.mem_map.1 hl
          rw [← hf]; exact .sym _ _ _ _ _ (endsOk_ne_dot _ (classSize_ok _ _))
        obtain ⟨o2, _, _, _⟩ := run_outer objs (L1.map f) hL1o stA oA (([f c] ++ (L2.map f ++ (R ++ topLevel d o))) ++ [])
        have k1 := execK_keeps_count objs (d.settings.style.classStart c) (L1.map f) stA (([f c] ++ (L2.map f ++ (R ++ topLevel d o))) ++ []) (by omega)
        have k2 := execK_keeps_count objs (d.settings.style.classEnd c) (L1.map f) stA (([f c] ++ (L2.map f ++ (R ++ topLevel d o))) ++ []) (by omega)
        generalize execK objs stA (L1.map f) _ = st2 at *
        rw [hS] at k1
        rw [hE] at k2
        rw [execK_append]
        have hone : ∀ (st : St) (k : List Line), execK objs st [f c] k = step objs st (f c) k := by
          intro st k; simp [execK]
        rw [hone]
        have hstep : step objs st2 (f c) ((L2.map f ++ (R ++ topLevel d o)) ++ [])
            = { st2 with syms := st2.syms ++ [(d.settings.style.classSize c, Val.num ((E + M32 - v % M32) % M32))] } := by
          rw [← hf, hd]
          unfold linkerSym
          rw [step_assign_sym objs st2 _ _ _ _ _ _ (by rw [← hd]; exact hzne) o2.nd]
          simp [eval, operand_num st2 _ E hene k2, operand_num st2 _ v hsne k1]
        rw [hstep, execK_keeps_count objs _ _ _ [] (by simp only [assignCount_append]; omega)]
        simp [lookupLast_snoc]; rfl

/-- the hypotheses are met and the numbers are real: class `ovl` of `exDocC` starts at 0x80100000, ends at 0x8010000D, size 13. -/
example : (match generateNormal exDocC C04.exOpts false with
    | .ok script =>
      decide (assignCount c!"ovl_VRAM_CLASS_START" script = 1) && decide (assignCount c!"ovl_VRAM_CLASS_SIZE" script = 1)
      && decide (assignCount c!"ovl_VRAM_CLASS_END" script = 3)
      && decide ((link C04.exObjs [] script).sym c!"ovl_VRAM_CLASS_START" = some 0x80100000)
      && decide ((link C04.exObjs [] script).sym c!"ovl_VRAM_CLASS_END" = some 0x8010000D)
      && decide ((link C04.exObjs [] script).sym c!"ovl_VRAM_CLASS_SIZE" = some 13)
    | .error _ => false) = true := by decide +kernel

end Slinky.C10
