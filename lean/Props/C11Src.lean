/-
  C11, the partial object the main script places — tied to the source text (lean/Src/Formats.lean,
  regenerated from partial_linker_writer.rs on every run).
-/
import Src.Formats
import Props.C11
namespace Slinky.C11

/-- the single file of the segment handed to the main writer is `<folder>/<segment>.o`, the name being
`format!("{}.o", segment.name)`. -/
theorem partial_object_src (folder : Str) (seg : Segment) :
    (partialSegment folder seg).files
      = [FileInfo.newObject (pathPush folder (fmt Src.plw__add_all_segments_1 [.s seg.name]))] := by
  simp [partialSegment, fmt, Src.plw__add_all_segments_1]

theorem counts_src : Src.plw__add_all_segments_count = 2 := by decide

end Slinky.C11
