/-
  C14 — KEEP wrapping follows nearest-ancestor `keep_sections` inheritance.
-/
import Props.Lemmas
namespace Slinky.C14
open Slinky

def mapD {α β} (f : α → β) : D α → D β
  | .ok a => .ok (f a)
  | .error e => .error e

mutual
  /-- pushing an inherited value down a tree that is already resolved internally is the
  top-down resolution with that inherited value. -/
  theorem passDown_resolve (k : Keep) (t : FileInfo) :
      passDownFile k (resolveFile .absent t) = resolveFile k t := by
    cases t with
    | mk p kind sf pa se lo so fs dir c keep =>
      by_cases hk : k = .absent
      · subst hk
        simp [passDownFile, resolveFile]
      · by_cases hkeep : keep = .absent
        · subst hkeep
          by_cases hg : kind = .group
          · subst hg
            simp [passDownFile, resolveFile, hk, passDown_resolve_list k fs]
          · simp [passDownFile, resolveFile, hk, hg]
        · simp [passDownFile, resolveFile, hk, hkeep]
  theorem passDown_resolve_list (k : Keep) (ts : List FileInfo) :
      passDownFiles k (resolveFiles .absent ts) = resolveFiles k ts := by
    cases ts with
    | nil => simp [passDownFiles, resolveFiles]
    | cons t ts =>
      simp [passDownFiles, resolveFiles, passDown_resolve k t, passDown_resolve_list k ts]
end


theorem resolveFiles_nil_iff (k : Keep) : resolveFiles k [] = [] := by simp [resolveFiles]

/-- the kind/field rules commute with the resolution of the children. -/
theorem fileFields_pass (path : AN Str) (kindA : AN FileKind) (subfile : AN Str) (padAmount : AN Nat)
    (sect lo : AN Str) (so : AN (List (Str × Str))) (has pres : Bool) (children : D (List FileInfo))
    (dir : AN Str) (c : CondS) (keep : Keep) :
    fileFields true path kindA subfile padAmount sect lo so has pres (mapD (resolveFiles .absent) children) dir c keep
      = mapD (resolveFile .absent) (fileFields false path kindA subfile padAmount sect lo so has pres children dir c keep) := by
  unfold fileFields filesR
  cases hpre : filePre path kindA subfile padAmount sect lo so with
  | error e => rfl
  | ok r =>
    obtain ⟨p, kind, sf, pa, se, lon, sord⟩ := r
    simp only
    by_cases hg : kind = .group
    · subst hg
      cases has with
      | false => rfl
      | true =>
        cases children with
        | error e => rfl
        | ok cs =>
          simp only [mapD, if_true]
          cases hpost : filePost .group dir c with
          | error e => rfl
          | ok r2 =>
            obtain ⟨dr, cond⟩ := r2
            simp only [mapD]
            by_cases hk : keep = .absent
            · subst hk
              simp [resolveFile]
            · simp [resolveFile, hk, passDown_resolve_list]
    · simp only [hg, if_false]
      cases pres with
      | true => rfl
      | false =>
        cases hpost : filePost kind dir c with
        | error e => rfl
        | ok r2 =>
          obtain ⟨dr, cond⟩ := r2
          simp [mapD, resolveFile, hg, resolveFiles]


mutual
  /-- `FileInfoSerial::unserialize` with its push-down pass equals the pass-free parse followed
  by top-down nearest-ancestor resolution (same accept/reject, same error). -/
  theorem unserialize_pass (f : FileS) :
      FileS.unserialize true f = mapD (resolveFile .absent) (FileS.unserialize false f) := by
    cases f with
    | mk path kindA subfile padAmount sect lo so files dir c keep =>
      unfold FileS.unserialize
      cases files with
      | value l =>
        simp only
        rw [unserializeList_pass l]
        exact fileFields_pass _ _ _ _ _ _ _ _ _ _ _ _ _
      | absent => exact fileFields_pass _ _ _ _ _ _ _ _ _ (.ok []) _ _ _
      | null => exact fileFields_pass _ _ _ _ _ _ _ _ _ (.ok []) _ _ _
  theorem unserializeList_pass (l : List FileS) :
      FileS.unserializeList true l = mapD (resolveFiles .absent) (FileS.unserializeList false l) := by
    cases l with
    | nil => rfl
    | cons f fs =>
      unfold FileS.unserializeList
      rw [unserialize_pass f, unserializeList_pass fs]
      cases FileS.unserialize false f with
      | error e => rfl
      | ok x =>
        cases FileS.unserializeList false fs with
        | error e => rfl
        | ok xs => simp [mapD, resolveFiles]
end


theorem mapE_mapD {α β} (f g : α → D β) (h : β → β) (hfg : ∀ a, f a = mapD h (g a)) (l : List α) :
    mapE f l = mapD (List.map h) (mapE g l) := by
  induction l with
  | nil => rfl
  | cons a as ih =>
    unfold mapE
    rw [hfg a, ih]
    cases g a with
    | error e => rfl
    | ok x =>
      cases mapE g as with
      | error e => rfl
      | ok xs => rfl

theorem resolveFiles_eq_map (k : Keep) (l : List FileInfo) : resolveFiles k l = l.map (resolveFile k) := by
  induction l with
  | nil => simp [resolveFiles]
  | cons a as ih => simp [resolveFiles, ih]

/-- `SegmentSerial::unserialize` with its pass = pass-free parse, then the files resolved
top-down from the segment's own value. -/
theorem segment_pass (st : Settings) (s : SegmentS) :
    SegmentS.unserialize true st s
      = mapD (fun seg => { seg with files := resolveFiles seg.keep seg.files }) (SegmentS.unserialize false st s) := by
  unfold SegmentS.unserialize
  split
  · rfl
  · split
    · rfl
    · rw [unserializeList_pass]
      cases FileS.unserializeList false s.files with
      | error e => rfl
      | ok files =>
        simp only [mapD]
        cases segmentRest st s with
        | error e => rfl
        | ok seg =>
          simp only [mapD]
          by_cases hk : s.keep = .absent
          · simp [hk]
          · simp [hk, passDown_resolve_list]


/-- class value pushed onto a segment whose files are resolved from its own value =
the segment resolved with the class as outermost ancestor. -/
theorem applyClassKeep_resolve (classes : List VramClass) (seg : Segment) :
    applyClassKeep classes { seg with files := resolveFiles seg.keep seg.files }
      = resolveSegment classes seg := by
  unfold applyClassKeep resolveSegment classKeep
  cases hvc : seg.vramClass with
  | none =>
    by_cases hk : seg.keep = .absent <;> simp [hk]
  | some cn =>
    simp only
    cases hf : classes.find? (fun c => c.name = cn) with
    | none => by_cases hk : seg.keep = .absent <;> simp [hk]
    | some vc =>
      simp only [Segment.passDownKeep]
      by_cases hv : vc.keep = .absent
      · by_cases hk : seg.keep = .absent <;> simp [hv, hk]
      · by_cases hk : seg.keep = .absent
        · simp [hv, hk, passDown_resolve_list]
        · simp [hv, hk]

/-- **C14 (parse level).** Parsing a document with the three push-down passes of the code
yields exactly the document obtained by parsing the explicitly written values only and then
giving every entry the nearest explicit `keep_sections` among itself, its enclosing groups
from the innermost outwards, its segment and the segment's vram class. -/
theorem passes_refine (ds : DocumentS) :
    ds.unserialize true = mapD resolveDoc (ds.unserialize false) := by
  unfold DocumentS.unserialize
  cases documentPre ds with
  | error e => rfl
  | ok r =>
    obtain ⟨settings, classes⟩ := r
    simp only
    rw [mapE_mapD (SegmentS.unserialize true settings) (SegmentS.unserialize false settings) _
      (segment_pass settings)]
    cases mapE (SegmentS.unserialize false settings) ds.segments with
    | error e => rfl
    | ok segs =>
      simp only [mapD]
      cases documentPost ds with
      | error e => rfl
      | ok r2 =>
        obtain ⟨entry, sa, rs, as_⟩ := r2
        simp only [mapD, resolveDoc, if_true]
        congr 2
        simp only [List.map_map]
        apply List.map_congr_left
        intro seg _
        exact applyClassKeep_resolve classes seg

/-- the same for a whole value tree. -/
theorem parse_eq_specParse (y : Y) : parseDocument y = specParse y := by
  unfold parseDocument specParse
  cases dDocumentS y with
  | error e => rfl
  | ok ds =>
    simp only
    rw [passes_refine]
    cases ds.unserialize false <;> rfl

end Slinky.C14
