/-
  C03 in the image of the **main script of partial mode**: the whole-script theorems of C03 hold for it too.

  `partial_main_shape`: what `generatePartial` returns as the main script is the version comment, `begin_sections`,
  `add_segment` — in the context that refers to partial objects — over the emitted segments of the document, each
  with its file list replaced by `<folder>/<segment>.o` (`C04.partialSegments_main`), `end_sections` and the
  top-level statements. The `_core` theorems of Props/C03Core.lean then apply unchanged. The object table `objs`
  is the table of the partial objects (with the sections `ld -r` gave them).
-/
import Props.C03Core
namespace Slinky.C03
open Slinky W Ld

/-- the context in which the main script of partial mode is written. -/
def partialCx (d : Document) (o : Opts) : Ctx := { d := d, o := o, refPartial := true }

/-- the segments the main script of partial mode is written for. -/
def partialSegs (d : Document) (o : Opts) (folder : Str) : List Segment :=
  (d.segments.filter fun s => shouldEmit o s.cond).map (partialSegment folder)

theorem partialSegs_emitted (d : Document) (o : Opts) (folder : Str) (s : Segment) (hs : s ∈ partialSegs d o folder) :
    shouldEmit o s.cond = true := by
  obtain ⟨s0, hs0, rfl⟩ := List.mem_map.1 hs
  obtain ⟨_, hi0⟩ := List.mem_filter.1 hs0
  simpa [partialSegment] using hi0

theorem partialSegs_alloc (d : Document) (o : Opts) (folder : Str)
    (hall : ∀ s ∈ d.segments, shouldEmit o s.cond = true → s.allocSections ≠ []) :
    ∀ s ∈ partialSegs d o folder, shouldEmit (partialCx d o).o s.cond = true → s.allocSections ≠ [] := by
  intro s hs _
  obtain ⟨s0, hs0, rfl⟩ := List.mem_map.1 hs
  obtain ⟨hm0, hi0⟩ := List.mem_filter.1 hs0
  exact hall s0 hm0 (by simpa using hi0)

/-- **the main script of partial mode has the shape the `_core` theorems speak about.** -/
theorem partial_main_shape (d : Document) (o : Opts) (vc : Bool) (out : PartialOut) (h : generatePartial d o vc = .ok out) :
    ∃ (folder : Str) (ls : List Line) (emitted : List Str),
      d.settings.partialBuildSegmentsFolder = some folder ∧
      addSegments (partialCx d o) [] (partialSegs d o folder) = .ok (ls, emitted) ∧
      out.main = versionComment vc ++ (beginSections (partialCx d o) ++ ls ++ (endSections (partialCx d o) emitted ++ topLevel d o)) := by
  unfold generatePartial at h
  split at h
  · contradiction
  · rename_i folder hfolder
    simp only at h
    split at h
    · contradiction
    · rename_i ls emitted ps hps
      injection h with h
      subst h
      have hmain := Slinky.C04.partialSegments_main d o vc folder escapePath d.segments [] ls emitted ps hps
      exact ⟨folder, ls, emitted, hfolder, hmain, by simp [partialCx, List.append_assoc]⟩

/-- `final_follows_segment` for the main script of partial mode. -/
theorem final_follows_segment_partial (objs : List InSec) (d : Document) (o : Opts) (vc : Bool) (out : PartialOut)
    (h : generatePartial d o vc = .ok out)
    (hall : ∀ s ∈ d.segments, shouldEmit o s.cond = true → s.allocSections ≠ [])
    (defsyms : List (Str × Nat)) (folder : Str) (hfolder : d.settings.partialBuildSegmentsFolder = some folder)
    (pre post : List Segment) (seg f : Segment) (hsplit : partialSegs d o folder = pre ++ seg :: post) (hf : f ∈ pre)
    (hfv : seg.fixedVram = none) (hfs : seg.fixedSymbol = none) (hfol : seg.followsSegment = some f.name)
    (hcnt : assignCount (d.settings.style.segVramEnd f.name) out.main ≤ 1) :
    ∃ os ∈ (link objs defsyms out.main).secs, os.name = c!"." ++ seg.name ∧ os.noload = false ∧
      (link objs defsyms out.main).sym (d.settings.style.segVramEnd f.name) = some os.addr := by
  obtain ⟨folder', ls, emitted, hf', hsegs, hmain⟩ := partial_main_shape d o vc out h
  rw [hfolder] at hf'; injection hf' with hf'; subst hf'
  rw [hmain] at hcnt ⊢
  have hmem : ∀ s ∈ pre ++ seg :: post, shouldEmit o s.cond = true := fun s hs => partialSegs_emitted d o folder s (hsplit ▸ hs)
  exact follows_segment_core objs (partialCx d o) rfl vc _ ls emitted _ hsegs (partialSegs_alloc d o folder hall) defsyms
    pre post seg f hsplit hf (hmem f (List.mem_append_left _ hf)) (hmem seg (List.mem_append_right _ List.mem_cons_self)) hfv hfs hfol hcnt

/-- `final_fixed_symbol` for the main script of partial mode. -/
theorem final_fixed_symbol_partial (objs : List InSec) (d : Document) (o : Opts) (vc : Bool) (out : PartialOut)
    (h : generatePartial d o vc = .ok out)
    (hall : ∀ s ∈ d.segments, shouldEmit o s.cond = true → s.allocSections ≠ [])
    (defsyms : List (Str × Nat)) (folder : Str) (hfolder : d.settings.partialBuildSegmentsFolder = some folder)
    (pre post : List Segment) (seg : Segment) (hsplit : partialSegs d o folder = pre ++ seg :: post)
    (hfv : seg.fixedVram = none) (a : Str) (hfs : seg.fixedSymbol = some a) (hadot : a ≠ c!".") (harom : a ≠ romPos)
    (x : Nat) (hds : lookupLast a (defsyms.map fun kv => (kv.1, Val.num kv.2)) = some (.num x))
    (hcnt : assignCount a out.main = 0) :
    ∃ os ∈ (link objs defsyms out.main).secs, os.name = c!"." ++ seg.name ∧ os.noload = false ∧ os.addr = x := by
  obtain ⟨folder', ls, emitted, hf', hsegs, hmain⟩ := partial_main_shape d o vc out h
  rw [hfolder] at hf'; injection hf' with hf'; subst hf'
  rw [hmain] at hcnt ⊢
  have hmem : ∀ s ∈ pre ++ seg :: post, shouldEmit o s.cond = true := fun s hs => partialSegs_emitted d o folder s (hsplit ▸ hs)
  exact fixed_symbol_core objs (partialCx d o) rfl vc _ ls emitted _ hsegs (partialSegs_alloc d o folder hall) defsyms
    pre post seg hsplit (hmem seg (List.mem_append_right _ List.mem_cons_self)) hfv a hfs hadot harom x hds hcnt

/-- `final_default_placement` for the main script of partial mode. -/
theorem final_default_placement_partial (objs : List InSec) (d : Document) (o : Opts) (vc : Bool) (out : PartialOut)
    (h : generatePartial d o vc = .ok out)
    (hall : ∀ s ∈ d.segments, shouldEmit o s.cond = true → s.allocSections ≠ [])
    (defsyms : List (Str × Nat)) (folder : Str) (hfolder : d.settings.partialBuildSegmentsFolder = some folder)
    (pre post : List Segment) (seg : Segment) (hsplit : partialSegs d o folder = pre ++ seg :: post)
    (hfv : seg.fixedVram = none) (hfs : seg.fixedSymbol = none) (hfol : seg.followsSegment = none) (hcl : seg.vramClass = none) :
    ∃ os ∈ (link objs defsyms out.main).secs, os.name = c!"." ++ seg.name ∧ os.noload = false ∧ 1 ≤ os.align ∧
      match lastEmitted o none pre with
      | none => os.addr = Ld.alignUp (alignO seg.segmentStartAlign 0) os.align
      | some f => assignCount (d.settings.style.segVramEnd f.name) out.main ≤ 1 →
          ∃ e, (link objs defsyms out.main).sym (d.settings.style.segVramEnd f.name) = some e ∧
            os.addr = Ld.alignUp (alignO seg.segmentStartAlign e) os.align := by
  obtain ⟨folder', ls, emitted, hf', hsegs, hmain⟩ := partial_main_shape d o vc out h
  rw [hfolder] at hf'; injection hf' with hf'; subst hf'
  rw [hmain]
  have hmem : ∀ s ∈ pre ++ seg :: post, shouldEmit o s.cond = true := fun s hs => partialSegs_emitted d o folder s (hsplit ▸ hs)
  exact default_placement_core objs (partialCx d o) rfl vc _ ls emitted _ hsegs (partialSegs_alloc d o folder hall) defsyms
    pre post seg hsplit (hmem seg (List.mem_append_right _ List.mem_cons_self)) hfv hfs hfol hcl

/-- `final_vram_start` for the main script of partial mode. -/
theorem final_vram_start_partial (objs : List InSec) (d : Document) (o : Opts) (vc : Bool) (out : PartialOut)
    (h : generatePartial d o vc = .ok out)
    (hall : ∀ s ∈ d.segments, shouldEmit o s.cond = true → s.allocSections ≠ [])
    (defsyms : List (Str × Nat)) (folder : Str) (hfolder : d.settings.partialBuildSegmentsFolder = some folder)
    (pre post : List Segment) (seg : Segment) (hsplit : partialSegs d o folder = pre ++ seg :: post)
    (hcnt : assignCount (d.settings.style.segVramStart seg.name) out.main ≤ 1)
    (hhdr : hdrCount (c!"." ++ seg.name) out.main ≤ 1) :
    ∃ os ∈ (link objs defsyms out.main).secs, os.name = c!"." ++ seg.name ∧ os.noload = false ∧
      (link objs defsyms out.main).sym (d.settings.style.segVramStart seg.name) = some os.addr ∧
      (assignCount (d.settings.style.segVramEnd seg.name) out.main ≤ 1 →
        ∃ e, (link objs defsyms out.main).sym (d.settings.style.segVramEnd seg.name) = some e ∧ os.addr + os.size ≤ e) := by
  obtain ⟨folder', ls, emitted, hf', hsegs, hmain⟩ := partial_main_shape d o vc out h
  rw [hfolder] at hf'; injection hf' with hf'; subst hf'
  rw [hmain] at hcnt hhdr ⊢
  have hmem : ∀ s ∈ pre ++ seg :: post, shouldEmit o s.cond = true := fun s hs => partialSegs_emitted d o folder s (hsplit ▸ hs)
  exact vram_start_core objs (partialCx d o) rfl vc _ ls emitted _ hsegs (partialSegs_alloc d o folder hall) defsyms
    pre post seg hsplit (hmem seg (List.mem_append_right _ List.mem_cons_self)) hcnt hhdr

/-! ### the hypotheses are met, and the conclusion is about real numbers -/

def exDocP : Document :=
  { C04.exDoc with settings := { C04.exDoc.settings with partialBuildSegmentsFolder := some c!"segments" } }

/-- the partial objects of the two segments, with the sections `ld -r` gave them. -/
def exObjsP : List InSec :=
  [⟨c!"segments/boot.o", none, c!".text", 20, 4⟩, ⟨c!"segments/boot.o", none, c!".bss", 100, 8⟩,
   ⟨c!"segments/main.o", none, c!".text", 8, 4⟩, ⟨c!"segments/main.o", none, c!".data", 5, 1⟩]

/-- the main script of partial mode for the example document of `C04Final`: the same layout as the ordinary script —
`boot` ends at 0x80000080, `main` (no address, start alignment 64) is recorded there, its VRAM start symbol is that
address and its VRAM end lies 13 bytes behind; the symbols and the header occur once. -/
example : (match generatePartial exDocP C04.exOpts false with
    | .ok out =>
      decide (assignCount c!"main_VRAM" out.main = 1) && decide (hdrCount c!".main" out.main = 1)
      && decide (assignCount c!"boot_VRAM_END" out.main = 1)
      && decide ((partialSegs exDocP C04.exOpts c!"segments").map (·.name) = [c!"boot", c!"main"])
      && decide ((link exObjsP [] out.main).sym c!"boot_VRAM_END" = some 0x80000080)
      && decide ((link exObjsP [] out.main).sym c!"main_VRAM" = some 0x80000080)
      && decide ((link exObjsP [] out.main).sym c!"main_VRAM_END" = some 0x8000008D)
      && (link exObjsP [] out.main).secs.any (fun os => os.name = c!".main" && os.addr = 0x80000080 && os.size = 13)
    | .error _ => false) = true := by decide +kernel

end Slinky.C03
