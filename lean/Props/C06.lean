/-
  C06 — conditional inclusion follows the documented predicate for every entry kind.
-/
import Slinkyv
namespace Slinky.C06
open Slinky

/-- `should_emit_entry` (the code, mirrored line for line) computes the documented predicate,
for every four lists and every option map. -/
theorem predicate (o : Opts) (c : Cond) : shouldEmit o c = specEmit o c := by
  obtain ⟨ea, el, ia, il⟩ := c
  unfold shouldEmit specEmit
  cases ia <;> cases il <;> simp only [List.any_nil, List.all_nil, List.isEmpty_nil, List.isEmpty_cons]
  all_goals
    generalize List.any ea (pairMatches o) = a
    generalize el.isEmpty = b
    generalize List.all el (pairMatches o) = c'
  · cases a <;> cases b <;> cases c' <;> rfl
  · rename_i h t
    generalize List.all (h :: t) (pairMatches o) = g
    cases a <;> cases b <;> cases c' <;> cases g <;> rfl
  · rename_i h t
    generalize List.any (h :: t) (pairMatches o) = f
    cases a <;> cases b <;> cases c' <;> cases f <;> rfl
  · rename_i h t h' t'
    generalize List.any (h :: t) (pairMatches o) = f
    generalize List.all (h' :: t') (pairMatches o) = g
    cases a <;> cases b <;> cases c' <;> cases f <;> cases g <;> rfl

end Slinky.C06
