/-
  C06 — conditional inclusion follows the documented predicate for every entry kind.
-/
import Slinkyv
import Props.C07
import Props.C15
namespace Slinky.C06
open Slinky

/-- `should_emit_entry` (the code, mirrored line for line) computes the documented predicate,
for every four lists and every option map. -/
theorem predicate (o : Opts) (c : Cond) : shouldEmit o c = specEmit o c := by
  obtain ⟨ea, el, ia, il⟩ := c
  unfold shouldEmit specEmit
  cases ia <;> cases il <;> simp only [List.any_nil, List.all_nil, List.isEmpty_nil, List.isEmpty_cons]
  all_goals
    generalize List.any ea (pairMatches o) = a
    generalize el.isEmpty = b
    generalize List.all el (pairMatches o) = c'
  · cases a <;> cases b <;> cases c' <;> rfl
  · rename_i h t
    generalize List.all (h :: t) (pairMatches o) = g
    cases a <;> cases b <;> cases c' <;> cases g <;> rfl
  · rename_i h t
    generalize List.any (h :: t) (pairMatches o) = f
    cases a <;> cases b <;> cases c' <;> cases f <;> rfl
  · rename_i h t h' t'
    generalize List.any (h :: t) (pairMatches o) = f
    generalize List.all (h' :: t') (pairMatches o) = g
    cases a <;> cases b <;> cases c' <;> cases f <;> cases g <;> rfl

/-! ### options that nothing mentions never change any output -/

/-- the keys a condition looks at. -/
def condKeysOf (c : Cond) : List Str :=
  (c.excludeIfAny ++ c.excludeIfAll ++ c.includeIfAny ++ c.includeIfAll).map (·.1)

theorem any_congrP {α} (l : List α) (f g : α → Bool) (h : ∀ x ∈ l, f x = g x) : l.any f = l.any g := by
  induction l with
  | nil => rfl
  | cons a as ih =>
    simp only [List.any_cons, h a List.mem_cons_self, ih (fun x hx => h x (List.mem_cons_of_mem _ hx))]

theorem all_congrP {α} (l : List α) (f g : α → Bool) (h : ∀ x ∈ l, f x = g x) : l.all f = l.all g := by
  induction l with
  | nil => rfl
  | cons a as ih =>
    simp only [List.all_cons, h a List.mem_cons_self, ih (fun x hx => h x (List.mem_cons_of_mem _ hx))]

/-- the predicate depends on the option map only through the keys its four lists name. -/
theorem shouldEmit_agree (o o' : Opts) (c : Cond) (h : ∀ k ∈ condKeysOf c, o k = o' k) :
    shouldEmit o c = shouldEmit o' c := by
  have hp : ∀ p ∈ c.excludeIfAny ++ c.excludeIfAll ++ c.includeIfAny ++ c.includeIfAll, pairMatches o p = pairMatches o' p := by
    intro p hp
    unfold pairMatches optGet
    rw [h p.1 (List.mem_map.2 ⟨p, hp, rfl⟩)]
  have e1 : c.excludeIfAny.any (pairMatches o) = c.excludeIfAny.any (pairMatches o') :=
    any_congrP _ _ _ (fun p hp' => hp p (by simp [hp']))
  have e2 : c.excludeIfAll.all (pairMatches o) = c.excludeIfAll.all (pairMatches o') :=
    all_congrP _ _ _ (fun p hp' => hp p (by simp [hp']))
  have e3 : c.includeIfAny.any (pairMatches o) = c.includeIfAny.any (pairMatches o') :=
    any_congrP _ _ _ (fun p hp' => hp p (by simp [hp']))
  have e4 : c.includeIfAll.all (pairMatches o) = c.includeIfAll.all (pairMatches o') :=
    all_congrP _ _ _ (fun p hp' => hp p (by simp [hp']))
  unfold shouldEmit
  simp only [e1, e2, e3, e4]

/-- the `{key}` markers of a token list / of a path. -/
def tokKeys : List C07.Tok → List Str
  | [] => []
  | .key k :: rest => k :: tokKeys rest
  | _ :: rest => tokKeys rest

def pathKeysOf (p : Str) : List Str := ((components p).map fun c => tokKeys (C07.tokenize c)).flatten

theorem expandToks_agree (o o' : Opts) : ∀ (t : List C07.Tok), (∀ k ∈ tokKeys t, o k = o' k) →
    C07.expandToks o t = C07.expandToks o' t := by
  intro t
  induction t with
  | nil => intro _; rfl
  | cons x rest ih =>
    intro h
    cases x with
    | lit c => simp only [C07.expandToks, ih (fun k hk => h k (by simpa [tokKeys] using hk))]
    | key k =>
      have hk : o k = o' k := h k (by simp [tokKeys])
      simp only [C07.expandToks, optGet, hk, ih (fun k' hk' => h k' (by simp [tokKeys, hk']))]
    | unterminated t => simp only [C07.expandToks, ih (fun k hk => h k (by simpa [tokKeys] using hk))]

theorem escapeComponentsSpec_agree (o o' : Opts) : ∀ (cs : List Str) (buf : Str),
    (∀ k ∈ (cs.map fun c => tokKeys (C07.tokenize c)).flatten, o k = o' k) →
    C07.escapeComponentsSpec o buf cs = C07.escapeComponentsSpec o' buf cs := by
  intro cs
  induction cs with
  | nil => intro buf _; rfl
  | cons c rest ih =>
    intro buf h
    have h1 : C07.expandComponentSpec o c = C07.expandComponentSpec o' c :=
      expandToks_agree o o' _ (fun k hk => h k (by simp [hk]))
    simp only [C07.escapeComponentsSpec, h1]
    cases C07.expandComponentSpec o' c with
    | error e => rfl
    | ok r => exact ih _ (fun k hk => h k (by simp only [List.map_cons, List.flatten_cons, List.mem_append]; exact Or.inr hk))

/-- path expansion depends on the option map only through the keys of the path's markers. -/
theorem escapePath_agree (o o' : Opts) (p : Str) (h : ∀ k ∈ pathKeysOf p, o k = o' k) :
    escapePath o p = escapePath o' p := by
  rw [C07.escapePath_spec]
  exact escapeComponentsSpec_agree o o' _ _ h

/-! #### the congruence: where the writer reads the option map -/

mutual
  /-- the two option maps decide the same about this entry and everything below it: same
  inclusion verdict, same expansion of its path and of its group directory. -/
  def FOk (o o' : Opts) : FileInfo → Prop
    | .mk p _ _ _ _ _ _ fs dir c _ =>
      shouldEmit o c = shouldEmit o' c ∧ escapePath o p = escapePath o' p ∧ escapePath o dir = escapePath o' dir ∧ FOkL o o' fs
  def FOkL (o o' : Opts) : List FileInfo → Prop
    | [] => True
    | a :: as => FOk o o' a ∧ FOkL o o' as
end

theorem FOkL_mem (o o' : Opts) : ∀ (l : List FileInfo), FOkL o o' l → ∀ a ∈ l, FOk o o' a
  | [], _, _, h => nomatch h
  | b :: bs, h, a, ha => by
    unfold FOkL at h
    rcases List.mem_cons.1 ha with rfl | ha
    · exact h.1
    · exact FOkL_mem o o' bs h.2 a ha

theorem concatMapE_congr_mem {α β ε} (f g : α → Except ε (List β)) : ∀ (l : List α), (∀ a ∈ l, f a = g a) →
    concatMapE f l = concatMapE g l := by
  intro l
  induction l with
  | nil => intro _; rfl
  | cons a as ih =>
    intro h
    unfold concatMapE
    rw [h a List.mem_cons_self, ih (fun x hx => h x (List.mem_cons_of_mem _ hx))]

/-- the emitter reads the options only through the verdicts and expansions `FOk` fixes. -/
theorem emitEntry_opts (cx : Ctx) (hesc : cx.esc = escapePath) (o' : Opts) (seg : Segment) (secs : List Str) :
    ∀ (fuel : Nat) (f : FileInfo), FOk cx.o o' f → ∀ (sec base : Str) (parents : List Str),
      emitEntry { cx with o := o' } seg secs fuel f sec base parents = emitEntry cx seg secs fuel f sec base parents := by
  intro fuel
  induction fuel with
  | zero => intro f _ sec base parents; rfl
  | succ n ih =>
    intro f h sec base parents
    obtain ⟨p, k, sf, pa, se, lo, so, fs, dir, c, keep⟩ := f
    have hf := h
    unfold FOk at h
    obtain ⟨h1, h2, h3, h4⟩ := h
    unfold emitEntry
    simp only [FileInfo.cond, FileInfo.sectionOrder, FileInfo.keep, FileInfo.kind, FileInfo.path,
      FileInfo.subfile, FileInfo.sect, FileInfo.padAmount, FileInfo.linkerOffsetName, FileInfo.dir, FileInfo.files]
    have hch : ∀ kk base', concatMapE (fun child => emitEntry { cx with o := o' } seg secs n child kk base' []) fs
        = concatMapE (fun child => emitEntry cx seg secs n child kk base' []) fs := by
      intro kk base'
      exact concatMapE_congr_mem _ _ fs (fun a ha => ih a (FOkL_mem _ _ fs h4 a ha) kk base' [])
    have hsub : ∀ kk, concatMapE (fun other => emitEntry { cx with o := o' } seg secs n (.mk p k sf pa se lo so fs dir c keep) other base (sec :: parents)) (subgroupsOf seg kk)
        = concatMapE (fun other => emitEntry cx seg secs n (.mk p k sf pa se lo so fs dir c keep) other base (sec :: parents)) (subgroupsOf seg kk) := by
      intro kk
      congr 1
      funext other
      exact ih _ hf other base (sec :: parents)
    simp only [hch, hsub]
    simp only [hesc]
    rw [← h1, ← h2, ← h3]
    rfl

/-- the two option maps decide the same about a segment and everything in it. -/
def SegOk (o o' : Opts) (seg : Segment) : Prop :=
  shouldEmit o seg.cond = shouldEmit o' seg.cond ∧ escapePath o seg.dir = escapePath o' seg.dir ∧
  (∀ g, seg.gpInfo = some g → shouldEmit o g.cond = shouldEmit o' g.cond) ∧ FOkL o o' seg.files

theorem emitSection_opts (cx : Ctx) (hesc : cx.esc = escapePath) (o' : Opts) (seg : Segment)
    (hb : escapePath cx.o cx.d.settings.basePath = escapePath o' cx.d.settings.basePath)
    (hd : escapePath cx.o seg.dir = escapePath o' seg.dir) (hf : FOkL cx.o o' seg.files) (sec : Str) (sections : List Str) :
    emitSection { cx with o := o' } seg sec sections = emitSection cx seg sec sections := by
  unfold emitSection
  have hc : ∀ base, concatMapE (fun file => emitEntry { cx with o := o' } seg sections (fuelFor seg) file sec base []) seg.files
      = concatMapE (fun file => emitEntry cx seg sections (fuelFor seg) file sec base []) seg.files := by
    intro base
    exact concatMapE_congr_mem _ _ _ (fun a ha => emitEntry_opts cx hesc o' seg sections _ a (FOkL_mem _ _ _ hf a ha) sec base [])
  simp only [hc]
  simp only [hesc]
  rw [← hb, ← hd]

theorem gpLine_opts (cx : Ctx) (o' : Opts) (seg : Segment) (sec : Str)
    (hg : ∀ g, seg.gpInfo = some g → shouldEmit cx.o g.cond = shouldEmit o' g.cond) :
    gpLine { cx with o := o' } seg sec = gpLine cx seg sec := by
  unfold gpLine
  cases h : seg.gpInfo with
  | none => rfl
  | some g => simp only [← hg g h]

theorem writeSegment_opts (cx : Ctx) (hesc : cx.esc = escapePath) (o' : Opts) (seg : Segment)
    (hb : escapePath cx.o cx.d.settings.basePath = escapePath o' cx.d.settings.basePath)
    (hs : SegOk cx.o o' seg) (sections : List Str) (noload : Bool) :
    writeSegment { cx with o := o' } seg sections noload = writeSegment cx seg sections noload := by
  unfold writeSegment sectionSymStart
  simp only [emitSection_opts cx hesc o' seg hb hs.2.1 hs.2.2.2, gpLine_opts cx o' seg _ hs.2.2.1]
  rfl

theorem writeSingleSegment_opts (cx : Ctx) (hesc : cx.esc = escapePath) (o' : Opts) (seg : Segment)
    (hb : escapePath cx.o cx.d.settings.basePath = escapePath o' cx.d.settings.basePath)
    (hs : SegOk cx.o o' seg) (sections : List Str) (noload : Bool) :
    writeSingleSegment { cx with o := o' } seg sections noload = writeSingleSegment cx seg sections noload := by
  unfold writeSingleSegment sectionSymStart
  simp only [emitSection_opts cx hesc o' seg hb hs.2.1 hs.2.2.2, gpLine_opts cx o' seg _ hs.2.2.1]
  rfl

theorem filter_congrP {α} (l : List α) (f g : α → Bool) (h : ∀ x ∈ l, f x = g x) : l.filter f = l.filter g := by
  induction l with
  | nil => rfl
  | cons a as ih =>
    simp only [List.filter_cons, h a List.mem_cons_self, ih (fun x hx => h x (List.mem_cons_of_mem _ hx))]

/-- which followed classes are in use reads the options only through the conditions of the
document's segments. -/
theorem classPart_opts (cx : Ctx) (o' : Opts)
    (hall : ∀ s ∈ cx.d.segments, shouldEmit cx.o s.cond = shouldEmit o' s.cond) (em : List Str) (seg : Segment) :
    classPart { cx with o := o' } em seg = classPart cx em seg := by
  have hf : ∀ vc, followedUsed { cx with o := o' } vc = followedUsed cx vc := by
    intro vc
    unfold followedUsed
    apply filter_congrP
    intro other _
    exact any_congrP _ _ _ (fun s hs => by simp only [hall s hs])
  unfold classPart classIntro
  simp only [hf]

theorem addSegment_opts (cx : Ctx) (hesc : cx.esc = escapePath) (o' : Opts) (seg : Segment)
    (hb : escapePath cx.o cx.d.settings.basePath = escapePath o' cx.d.settings.basePath)
    (hall : ∀ s ∈ cx.d.segments, shouldEmit cx.o s.cond = shouldEmit o' s.cond)
    (hs : SegOk cx.o o' seg) (em : List Str) :
    addSegment { cx with o := o' } em seg = addSegment cx em seg := by
  unfold addSegment
  simp only [writeSegment_opts cx hesc o' seg hb hs, ← hs.1, classPart_opts cx o' hall]
  rfl

theorem addSegments_opts (cx : Ctx) (hesc : cx.esc = escapePath) (o' : Opts)
    (hb : escapePath cx.o cx.d.settings.basePath = escapePath o' cx.d.settings.basePath)
    (hall : ∀ s ∈ cx.d.segments, shouldEmit cx.o s.cond = shouldEmit o' s.cond) :
    ∀ (l : List Segment), (∀ s ∈ l, SegOk cx.o o' s) → ∀ em,
      addSegments { cx with o := o' } em l = addSegments cx em l := by
  intro l
  induction l with
  | nil => intro _ em; rfl
  | cons a as ih =>
    intro h em
    unfold addSegments
    rw [addSegment_opts cx hesc o' a hb hall (h a List.mem_cons_self) em]
    simp only [ih (fun s hs => h s (List.mem_cons_of_mem _ hs))]

theorem addSingleSegment_opts (cx : Ctx) (hesc : cx.esc = escapePath) (o' : Opts) (seg : Segment)
    (hb : escapePath cx.o cx.d.settings.basePath = escapePath o' cx.d.settings.basePath)
    (hs : SegOk cx.o o' seg) :
    addSingleSegment { cx with o := o' } seg = addSingleSegment cx seg := by
  unfold addSingleSegment
  simp only [writeSingleSegment_opts cx hesc o' seg hb hs]
  rfl

theorem addAllSegments_opts (cx : Ctx) (hesc : cx.esc = escapePath) (o' : Opts)
    (hb : escapePath cx.o cx.d.settings.basePath = escapePath o' cx.d.settings.basePath)
    (hs : ∀ s ∈ cx.d.segments, SegOk cx.o o' s) :
    addAllSegments { cx with o := o' } = addAllSegments cx := by
  unfold addAllSegments
  simp only [addSegments_opts cx hesc o' hb (fun s h => (hs s h).1) _ hs]
  split
  · split
    · rename_i seg heq
      have : seg ∈ cx.d.segments := by
        have h2 : cx.d.segments = [seg] := heq
        rw [h2]; exact List.mem_cons_self
      simp only [addSingleSegment_opts cx hesc o' seg hb (hs seg this)]
    · rfl
  · rfl

/-- the two option maps decide the same about everything a document holds: conditions of
segments, entries, `gp_info` and top-level statements; expansions of `base_path`,
`target_path`, segment and group directories, entry paths and partial-object paths. -/
def DocOk (o o' : Opts) (d : Document) : Prop :=
  escapePath o d.settings.basePath = escapePath o' d.settings.basePath ∧
  (∀ t, d.settings.targetPath = some t → escapePath o t = escapePath o' t) ∧
  (∀ s ∈ d.segments, SegOk o o' s) ∧
  (∀ folder, d.settings.partialBuildSegmentsFolder = some folder → ∀ s ∈ d.segments,
    escapePath o (pathPush folder (s.name ++ c!".o")) = escapePath o' (pathPush folder (s.name ++ c!".o"))) ∧
  (∀ a ∈ d.symbolAssignments, shouldEmit o a.cond = shouldEmit o' a.cond) ∧
  (∀ a ∈ d.requiredSymbols, shouldEmit o a.cond = shouldEmit o' a.cond) ∧
  (∀ a ∈ d.asserts, shouldEmit o a.cond = shouldEmit o' a.cond)

theorem topLevel_opts (d : Document) (o o' : Opts) (h : DocOk o o' d) : topLevel d o' = topLevel d o := by
  unfold topLevel
  rw [filter_congrP d.symbolAssignments _ _ (fun a ha => (h.2.2.2.2.1 a ha).symm),
    filter_congrP d.requiredSymbols _ _ (fun a ha => (h.2.2.2.2.2.1 a ha).symm),
    filter_congrP d.asserts _ _ (fun a ha => (h.2.2.2.2.2.2 a ha).symm)]

theorem generateNormal_opts (d : Document) (o o' : Opts) (h : DocOk o o' d) (vc : Bool) :
    generateNormal d o' vc = generateNormal d o vc := by
  unfold generateNormal
  have := addAllSegments_opts { d := d, o := o, esc := escapePath } rfl o' h.1 h.2.2.1
  simp only at this
  rw [this, topLevel_opts d o o' h]

theorem partialSegment_ok (o o' : Opts) (folder : Str) (seg : Segment) (hs : SegOk o o' seg)
    (hp : escapePath o (pathPush folder (seg.name ++ c!".o")) = escapePath o' (pathPush folder (seg.name ++ c!".o"))) :
    SegOk o o' (partialSegment folder seg) := by
  refine ⟨hs.1, hs.2.1, hs.2.2.1, ?_⟩
  show FOkL o o' [FileInfo.newObject (pathPush folder (seg.name ++ c!".o"))]
  unfold FOkL FileInfo.newObject FOk
  refine ⟨⟨rfl, hp, ?_, by unfold FOkL; trivial⟩, by unfold FOkL; trivial⟩
  show escapePath o [] = escapePath o' []
  rw [C07.escapePath_spec]
  rfl

theorem partialSegments_opts (d : Document) (o o' : Opts) (vc : Bool) (folder : Str)
    (hb : escapePath o d.settings.basePath = escapePath o' d.settings.basePath)
    (hall : ∀ s ∈ d.segments, shouldEmit o s.cond = shouldEmit o' s.cond) :
    ∀ (l : List Segment), (∀ s ∈ l, SegOk o o' s ∧
        escapePath o (pathPush folder (s.name ++ c!".o")) = escapePath o' (pathPush folder (s.name ++ c!".o"))) → ∀ em,
      partialSegments d o' vc folder escapePath em l = partialSegments d o vc folder escapePath em l := by
  intro l
  induction l with
  | nil => intro _ em; rfl
  | cons a as ih =>
    intro h em
    obtain ⟨hs, hp⟩ := h a List.mem_cons_self
    unfold partialSegments
    have h1 := addSingleSegment_opts { d := d, o := o, emitKindSyms := false, emitSecSyms := false, esc := escapePath } rfl o' a hb hs
    simp only at h1
    have h2 : ∀ em, addSegment { d := d, o := o', refPartial := true, esc := escapePath } em (partialSegment folder a)
        = addSegment { d := d, o := o, refPartial := true, esc := escapePath } em (partialSegment folder a) := by
      intro em
      exact addSegment_opts { d := d, o := o, refPartial := true, esc := escapePath } rfl o' _ hb hall (partialSegment_ok o o' folder a hs hp) em
    simp only [h1, h2, ← hs.1, ih (fun s hs' => h s (List.mem_cons_of_mem _ hs'))]

theorem generatePartial_opts (d : Document) (o o' : Opts) (h : DocOk o o' d) (vc : Bool) :
    generatePartial d o' vc = generatePartial d o vc := by
  unfold generatePartial
  cases hf : d.settings.partialBuildSegmentsFolder with
  | none => rfl
  | some folder =>
    simp only []
    rw [partialSegments_opts d o o' vc folder h.1 (fun s hs => (h.2.2.1 s hs).1) d.segments (fun s hs => ⟨h.2.2.1 s hs, h.2.2.2.1 folder hf s hs⟩) [],
      topLevel_opts d o o' h]
    rfl

theorem mainDeps_opts (d : Document) (o o' : Opts) (h : DocOk o o' d) (vc : Bool) (ls : List Line) :
    mainDeps d o' vc ls = mainDeps d o vc ls := by
  unfold mainDeps optEscape
  cases ht : d.settings.targetPath with
  | none => rfl
  | some t => simp only [← h.2.1 t ht]

theorem partialDepsOf_opts (d : Document) (o o' : Opts) (h : DocOk o o' d) (vc : Bool) (ps : List (Str × List Line))
    (hf : ∀ f, d.settings.partialBuildSegmentsFolder = some f → escapePath o f = escapePath o' f) :
    partialDepsOf d o' vc escapePath ps = partialDepsOf d o vc escapePath ps := by
  unfold partialDepsOf partialTarget optEscape
  cases hp : d.settings.partialBuildSegmentsFolder with
  | none => simp only [← h.1]
  | some f => simp only [← h.1, ← hf f hp]

/-- **the congruence**: two option maps about which the document cannot tell the difference
(`DocOk`, and the same expansion of `partial_build_segments_folder`) generate the same
outputs in both modes. -/
theorem generate_opts (d : Document) (o o' : Opts) (h : DocOk o o' d)
    (hf : ∀ f, d.settings.partialBuildSegmentsFolder = some f → escapePath o f = escapePath o' f)
    (m : Mode) (vc : Bool) :
    generate d o' m vc = generate d o m vc := by
  unfold generate
  rw [generateNormal_opts d o o' h vc, generatePartial_opts d o o' h vc]
  simp only [mainDeps_opts d o o' h, partialDepsOf_opts d o o' h vc _ hf]

/-! #### the keys a document mentions -/

mutual
  def fileKeys : FileInfo → List Str
    | .mk p _ _ _ _ _ _ fs dir c _ => condKeysOf c ++ pathKeysOf p ++ pathKeysOf dir ++ filesKeys fs
  def filesKeys : List FileInfo → List Str
    | [] => []
    | f :: fs => fileKeys f ++ filesKeys fs
end

def segKeys (seg : Segment) : List Str :=
  condKeysOf seg.cond ++ pathKeysOf seg.dir
  ++ (match seg.gpInfo with | some g => condKeysOf g.cond | none => [])
  ++ filesKeys seg.files

/-- every key a condition list or a `{key}` marker of the document names (markers in segment
names count where the name becomes part of a partial-object path). -/
def docKeys (d : Document) : List Str :=
  pathKeysOf d.settings.basePath
  ++ (match d.settings.targetPath with | some t => pathKeysOf t | none => [])
  ++ (match d.settings.partialBuildSegmentsFolder with
      | some f => pathKeysOf f ++ (d.segments.map fun s => pathKeysOf (pathPush f (s.name ++ c!".o"))).flatten
      | none => [])
  ++ (d.segments.map segKeys).flatten
  ++ (d.symbolAssignments.map fun a => condKeysOf a.cond).flatten
  ++ (d.requiredSymbols.map fun a => condKeysOf a.cond).flatten
  ++ (d.asserts.map fun a => condKeysOf a.cond).flatten

theorem fileKeys_ok (o o' : Opts) : ∀ (f : FileInfo), (∀ k ∈ fileKeys f, o k = o' k) → FOk o o' f
  | .mk p kd sf pa se lo so fs dir c keep, h => by
    unfold fileKeys at h
    unfold FOk
    refine ⟨shouldEmit_agree o o' c (fun k hk => h k (by simp [hk])),
      escapePath_agree o o' p (fun k hk => h k (by simp [hk])),
      escapePath_agree o o' dir (fun k hk => h k (by simp [hk])),
      filesKeys_ok fs (fun k hk => h k (by simp [hk]))⟩
where
  filesKeys_ok : ∀ (l : List FileInfo), (∀ k ∈ filesKeys l, o k = o' k) → FOkL o o' l
  | [], _ => by unfold FOkL; trivial
  | f :: fs, h => by
    unfold filesKeys at h
    unfold FOkL
    exact ⟨fileKeys_ok o o' f (fun k hk => h k (by simp [hk])), filesKeys_ok fs (fun k hk => h k (by simp [hk]))⟩

theorem segKeys_ok (o o' : Opts) (seg : Segment) (h : ∀ k ∈ segKeys seg, o k = o' k) : SegOk o o' seg := by
  unfold segKeys at h
  refine ⟨shouldEmit_agree o o' _ (fun k hk => h k (by simp [hk])),
    escapePath_agree o o' _ (fun k hk => h k (by simp [hk])), ?_,
    fileKeys_ok.filesKeys_ok o o' _ (fun k hk => h k (by simp [hk]))⟩
  intro g hg
  exact shouldEmit_agree o o' _ (fun k hk => h k (by simp [hg, hk]))

/-- **C06: custom options that no condition and no path mentions never change any output.**
If two option maps agree on every key that a condition list or a `{key}` marker of the
document names, every output of both modes is the same — in particular adding, removing or
changing any other option changes nothing. -/
theorem unmentioned_options_change_nothing (d : Document) (o o' : Opts) (h : ∀ k ∈ docKeys d, o k = o' k)
    (m : Mode) (vc : Bool) : generate d o' m vc = generate d o m vc := by
  unfold docKeys at h
  apply generate_opts d o o' ?_ ?_ m vc
  · refine ⟨escapePath_agree o o' _ (fun k hk => h k (by simp [hk])), ?_, ?_, ?_, ?_, ?_, ?_⟩
    · intro t ht
      exact escapePath_agree o o' _ (fun k hk => h k (by simp [ht, hk]))
    · intro s hs
      exact segKeys_ok o o' s (fun k hk => h k (by
        simp only [List.mem_append, List.mem_flatten, List.mem_map]
        exact Or.inl (Or.inl (Or.inl (Or.inr ⟨segKeys s, ⟨s, hs, rfl⟩, hk⟩)))))
    · intro folder hf s hs
      exact escapePath_agree o o' _ (fun k hk => h k (by
        simp only [hf, List.mem_append, List.mem_flatten, List.mem_map]
        exact Or.inl (Or.inl (Or.inl (Or.inl (Or.inr (Or.inr ⟨_, ⟨s, hs, rfl⟩, hk⟩)))))))
    · intro a ha
      exact shouldEmit_agree o o' _ (fun k hk => h k (by
        simp only [List.mem_append, List.mem_flatten, List.mem_map]
        exact Or.inl (Or.inl (Or.inr ⟨_, ⟨a, ha, rfl⟩, hk⟩))))
    · intro a ha
      exact shouldEmit_agree o o' _ (fun k hk => h k (by
        simp only [List.mem_append, List.mem_flatten, List.mem_map]
        exact Or.inl (Or.inr ⟨_, ⟨a, ha, rfl⟩, hk⟩)))
    · intro a ha
      exact shouldEmit_agree o o' _ (fun k hk => h k (by
        simp only [List.mem_append, List.mem_flatten, List.mem_map]
        exact Or.inr ⟨_, ⟨a, ha, rfl⟩, hk⟩))
  · intro f hf
    exact escapePath_agree o o' _ (fun k hk => h k (by
      simp only [hf, List.mem_append]
      exact Or.inl (Or.inl (Or.inl (Or.inl (Or.inr (Or.inl hk)))))))

/-- the hypothesis is non-trivial: an option the document does not mention may differ. -/
example : ∀ k ∈ docKeys (C15.exDoc []), (fun _ => none : Opts) k = (fun k => if k = c!"zz" then some c!"1" else none : Opts) k := by
  decide

end Slinky.C06
