/-
  C12, the text of a dependency file — tied to the source text (lean/Src/Formats.lean, regenerated from
  linker_writer.rs `export_dependencies_file` and version.rs on every run).
-/
import Src.Formats
import Props.C12
namespace Slinky.C12

theorem version_src : (c!"# " ++ versionText ++ c!"\n\n" : Str)
    = fmt Src.lw__export_dependencies_file_0 [.n Src.version_major, .n Src.version_minor, .n Src.version_patch] := by
  decide

/-- `export_dependencies_file`, write by write (`writeln!` adds the line break of the rule lines). -/
theorem deps_text_src (vc : Bool) (target : Str) (paths : List Str) :
    depsText vc target paths
      = (if vc then fmt Src.lw__export_dependencies_file_0 [.n Src.version_major, .n Src.version_minor, .n Src.version_patch]
         else [])
        ++ fmt Src.lw__export_dependencies_file_2 [.s target]
        ++ (paths.map (fun p => fmt Src.lw__export_dependencies_file_3 [.s p])).flatten
        ++ fmt Src.lw__export_dependencies_file_4 []
        ++ (paths.map (fun p => fmt Src.lw__export_dependencies_file_6 [.s p] ++ c!"\n")).flatten := by
  rw [← version_src]
  have h3 : (fun p : Str => fmt Src.lw__export_dependencies_file_3 [.s p]) = (fun p => c!" \\\n    " ++ p) := by
    funext p; simp [fmt, Src.lw__export_dependencies_file_3]
  have h6 : (fun p : Str => fmt Src.lw__export_dependencies_file_6 [.s p] ++ c!"\n") = (fun p => p ++ c!":\n") := by
    funext p; simp [fmt, Src.lw__export_dependencies_file_6]
  rw [h3, h6]
  simp [depsText, fmt, Src.lw__export_dependencies_file_2, Src.lw__export_dependencies_file_4]

theorem counts_src : Src.lw__export_dependencies_file_count = 7 := by decide

end Slinky.C12
