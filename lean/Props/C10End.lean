/-
  C10 in the image `Ld.link` returns: the end symbol of a vram class — for the whole ordinary script of a document.

  Behind every emitted member the class end symbol is the maximum of its previous value and the member's VRAM end
  (`tail_class_end`, per fragment). This file carries that through the fold over the segments (`class_end_kept`): the
  class end symbol holds a number that is at least the VRAM end of every emitted member so far and is either 0 (the
  value the prologue gives it) or one of these VRAM ends. The only statements assigning it must be the prologue's and
  one `MAX` per emitted member — the hypothesis on the text is the count `1 + number of emitted members`, and
  `class_end_lower` shows that the script has at least that many.
-/
import Props.C10Symbol
namespace Slinky.C10
open Slinky W Ld

/-- the start alignments of `add_segment`, reached outside an output section: still outside, the ROM counter a number. -/
theorem startAligns_state (objs : List InSec) (seg : Segment) (st : St) (ho : Outside st) (r : Nat)
    (hr : lookupLast romPos st.syms = some (.num r)) (k : List Line) :
    Outside (execK objs st (C03.startAligns seg) k) ∧ ∃ r', lookupLast romPos (execK objs st (C03.startAligns seg) k).syms = some (.num r') := by
  obtain ⟨st', e, o, _, hr', _⟩ := seg_aligns objs seg.segmentStartAlign st ho r hr k
  unfold C03.startAligns
  cases hsa : seg.segmentStartAlign with
  | none => exact ⟨ho, r, hr⟩
  | some a =>
    rw [hsa] at e hr'
    have e' : st' = execK objs st [alignSymbol c!"__romPos" a, alignSymbol c!"." a] k := e
    show Outside (execK objs st [alignSymbol c!"__romPos" a, alignSymbol c!"." a] k) ∧ _
    rw [← e']
    exact ⟨o, _, hr'⟩

/-- the statements of an emitted segment in front of `segTail`. -/
def segFront (cx : Ctx) (seg : Segment) (cls alloc noload : List Line) : List Line :=
  (cls ++ (C03.startAligns seg ++ [linkerSym (cx.d.settings.style.segRomStart seg.name) (.sym c!"__romPos")]))
    ++ linkerSym (cx.d.settings.style.segVramStart seg.name) (.addr (c!"." ++ seg.name)) :: (alloc ++ ([.blank] ++ (noload ++ [.blank])))

theorem segmentLines_front (cx : Ctx) (seg : Segment) (cls alloc noload : List Line) :
    segmentLines cx seg cls alloc noload = segFront cx seg cls alloc noload ++ segTail cx seg := by
  rw [C03.segmentLines_split]; simp [segFront, List.append_assoc]

/-- **the state in front of `segTail`**: outside every output section, the ROM counter a number. -/
theorem pre_tail_state (objs : List InSec) (cx : Ctx) (seg : Segment) (cls alloc noload : List Line)
    (hcls : ∀ l ∈ cls, OuterLine l ∧ symOf l ≠ some romPos)
    (ha : writeSegment cx seg seg.allocSections false = .ok alloc)
    (hn : writeSegment cx seg seg.noloadSections true = .ok noload)
    (st : St) (ho : Outside st) (r : Nat) (hr : lookupLast romPos st.syms = some (.num r)) (k : List Line) :
    Outside (execK objs st (segFront cx seg cls alloc noload) k) ∧
      ∃ r', lookupLast romPos (execK objs st (segFront cx seg cls alloc noload) k).syms = some (.num r') := by
  unfold segFront
  generalize hR : linkerSym (cx.d.settings.style.segRomStart seg.name) (.sym c!"__romPos") = romStart
  generalize hV : linkerSym (cx.d.settings.style.segVramStart seg.name) (.addr (c!"." ++ seg.name)) = vramStart
  have hRo : OuterLine romStart ∧ symOf romStart ≠ some romPos := by
    rw [← hR]; exact ⟨.sym _ _ _ _ _ (endsOk_ne_dot _ (segRomStart_ok _ _)),
      by simp [symOf, linkerSym, endsOk_ne_dot _ (segRomStart_ok cx.d.settings.style seg.name), ne_romPos (segRomStart_ok cx.d.settings.style seg.name)]⟩
  have hVo : OuterLine vramStart ∧ symOf vramStart ≠ some romPos := by
    rw [← hV]; exact ⟨.sym _ _ _ _ _ (endsOk_ne_dot _ (segVramStart_ok _ _)),
      by simp [symOf, linkerSym, endsOk_ne_dot _ (segVramStart_ok cx.d.settings.style seg.name), ne_romPos (segVramStart_ok cx.d.settings.style seg.name)]⟩
  have hsplit : (cls ++ (C03.startAligns seg ++ [romStart])) ++ vramStart :: (alloc ++ ([.blank] ++ (noload ++ [.blank])))
      = cls ++ (C03.startAligns seg ++ ([romStart] ++ ([vramStart] ++ (alloc ++ ([.blank] ++ (noload ++ [.blank])))))) := by
    simp [List.append_assoc]
  rw [hsplit]
  simp only [execK_append]
  obtain ⟨o1, _, _, _⟩ := run_outer objs cls (fun l hl => (hcls l hl).1) st ho
    ((C03.startAligns seg ++ ([romStart] ++ ([vramStart] ++ (alloc ++ ([.blank] ++ (noload ++ [.blank])))))) ++ k)
  have r1 := run_outer_keeps objs romPos cls (fun l hl => (hcls l hl).1) (fun l hl => (hcls l hl).2) st ho
    ((C03.startAligns seg ++ ([romStart] ++ ([vramStart] ++ (alloc ++ ([.blank] ++ (noload ++ [.blank])))))) ++ k)
  generalize execK objs st cls _ = st1 at *
  obtain ⟨o2, r2, hr2⟩ := startAligns_state objs seg st1 o1 r (r1.trans hr)
    (([romStart] ++ ([vramStart] ++ (alloc ++ ([.blank] ++ (noload ++ [.blank]))))) ++ k)
  generalize execK objs st1 (C03.startAligns seg) _ = st2 at *
  obtain ⟨o3, _, _, _⟩ := run_outer objs [romStart] (by intro l hl; rw [List.mem_singleton.1 hl]; exact hRo.1) st2 o2
    (([vramStart] ++ (alloc ++ ([.blank] ++ (noload ++ [.blank])))) ++ k)
  have r3 := run_outer_keeps objs romPos [romStart] (by intro l hl; rw [List.mem_singleton.1 hl]; exact hRo.1)
    (by intro l hl; rw [List.mem_singleton.1 hl]; exact hRo.2) st2 o2 (([vramStart] ++ (alloc ++ ([.blank] ++ (noload ++ [.blank])))) ++ k)
  generalize execK objs st2 [romStart] _ = st3 at *
  obtain ⟨o4, _, _, _⟩ := run_outer objs [vramStart] (by intro l hl; rw [List.mem_singleton.1 hl]; exact hVo.1) st3 o3
    ((alloc ++ ([.blank] ++ (noload ++ [.blank]))) ++ k)
  have r4 := run_outer_keeps objs romPos [vramStart] (by intro l hl; rw [List.mem_singleton.1 hl]; exact hVo.1)
    (by intro l hl; rw [List.mem_singleton.1 hl]; exact hVo.2) st3 o3 ((alloc ++ ([.blank] ++ (noload ++ [.blank]))) ++ k)
  generalize execK objs st3 [vramStart] _ = st4 at *
  obtain ⟨_, _, _, _, st5, _, _, e5, _, _, _, _, _, _, o5, _⟩ := section_image objs cx seg seg.allocSections false alloc ha st4 o4
    (([.blank] ++ (noload ++ [.blank])) ++ k)
  have r5 := section_image_rom objs cx seg seg.allocSections false alloc ha st4 o4 (([.blank] ++ (noload ++ [.blank])) ++ k)
  rw [← e5] at r5 ⊢
  have hb1 : execK objs st5 [.blank] ((noload ++ [.blank]) ++ k) = st5 := by simp [execK, step]
  rw [hb1]
  obtain ⟨_, _, _, _, st6, _, _, e6, _, _, _, _, _, _, o6, _⟩ := section_image objs cx seg seg.noloadSections true noload hn st5 o5
    ([.blank] ++ k)
  have r6 := section_image_rom objs cx seg seg.noloadSections true noload hn st5 o5 ([.blank] ++ k)
  rw [← e6] at r6 ⊢
  have hb2 : execK objs st6 [.blank] k = st6 := by simp [execK, step]
  rw [hb2]
  exact ⟨o6, r2, by rw [r6, r5, r4, r3]; exact hr2⟩

/-- **one emitted member, behind its class prologue**: the class end symbol becomes the maximum of what it held and the
member's VRAM end. -/
theorem class_end_member (objs : List InSec) (cx : Ctx) (seg : Segment) (c : Str) (hcl : seg.vramClass = some c)
    (alloc noload : List Line)
    (ha : writeSegment cx seg seg.allocSections false = .ok alloc)
    (hn : writeSegment cx seg seg.noloadSections true = .ok noload)
    (st : St) (ho : Outside st) (r : Nat) (hr : lookupLast romPos st.syms = some (.num r)) (k : List Line)
    (e1 : Nat) (he1 : lookupLast (cx.d.settings.style.classEnd c) st.syms = some (.num e1))
    (hcnt : assignCount (cx.d.settings.style.classEnd c) (segFront cx seg [] alloc noload) = 0) :
    ∃ v, lookupLast (cx.d.settings.style.segVramEnd seg.name) (execK objs st (segmentLines cx seg [] alloc noload) k).syms = some (.num v) ∧
      lookupLast (cx.d.settings.style.classEnd c) (execK objs st (segmentLines cx seg [] alloc noload) k).syms = some (.num (max e1 v)) := by
  rw [segmentLines_front, execK_append]
  obtain ⟨oF, rF, hrF⟩ := pre_tail_state objs cx seg [] alloc noload (fun _ h => nomatch h) ha hn st ho r hr (segTail cx seg ++ k)
  have heF : lookupLast (cx.d.settings.style.classEnd c) (execK objs st (segFront cx seg [] alloc noload) (segTail cx seg ++ k)).syms = some (.num e1) := by
    rw [execK_keeps_count objs _ _ st _ hcnt]; exact he1
  generalize execK objs st (segFront cx seg [] alloc noload) _ = stF at *
  obtain ⟨st', e', _, hd', _, hve, _, _, _⟩ := tail_image objs cx seg stF oF rF hrF k
  have hce := tail_class_end objs cx seg c hcl stF oF rF hrF e1 heF k
  rw [← e'] at hce ⊢
  exact ⟨st'.dot, hve, by rw [hce, hd']⟩

/-- how many statements must assign the class end symbol: two for the first emitted member (prologue and `MAX`), one for
each later one. `b` says whether the class has been introduced. -/
def endAssigns (o : Opts) (c : Str) : Bool → List Segment → Nat
  | _, [] => 0
  | b, seg :: rest =>
    if shouldEmit o seg.cond = true ∧ seg.vramClass = some c then (if b then 1 else 2) + endAssigns o c true rest
    else endAssigns o c b rest

theorem classIntro_assigns_end (cx : Ctx) (c : Str) (vc : VramClass) :
    1 ≤ assignCount (cx.d.settings.style.classEnd c) (classIntro cx c vc) := by
  have hne : cx.d.settings.style.classEnd c ≠ c!"." := endsOk_ne_dot _ (classEnd_ok _ _)
  unfold classIntro
  exact assignCount_pos (l := linkerSym (cx.d.settings.style.classEnd c) (.hex8 0)) (by simp)
    (Slinky.C04.symOf_linkerSym _ _ hne)

theorem segTail_assigns_end (cx : Ctx) (seg : Segment) (c : Str) (hcl : seg.vramClass = some c) :
    1 ≤ assignCount (cx.d.settings.style.classEnd c) (segTail cx seg) := by
  have hne : cx.d.settings.style.classEnd c ≠ c!"." := endsOk_ne_dot _ (classEnd_ok _ _)
  apply assignCount_pos (l := maxSelf (cx.d.settings.style.classEnd c) (cx.d.settings.style.segVramEnd seg.name))
  · unfold segTail; rw [hcl]; simp
  · simp [symOf, maxSelf, hne]

/-- `add_segment` for an emitted member of the class `c`. -/
theorem addSegment_member (cx : Ctx) (em : List Str) (seg : Segment) (a : List Line) (em1 : List Str) (c : Str)
    (h : addSegment cx em seg = .ok (a, em1)) (hem : shouldEmit cx.o seg.cond = true) (hc : seg.vramClass = some c) :
    ∃ cls alloc noload, a = segmentLines cx seg cls alloc noload ∧
      writeSegment cx seg seg.allocSections false = .ok alloc ∧ writeSegment cx seg seg.noloadSections true = .ok noload ∧
      ((c ∈ em ∧ cls = [] ∧ em1 = em) ∨
       (c ∉ em ∧ ∃ vc', findClass cx.d c = some vc' ∧ cls = classIntro cx c vc' ∧ em1 = em ++ [c])) := by
  unfold addSegment at h
  simp only [hem, Bool.not_true, Bool.false_eq_true, if_false] at h
  split at h
  · contradiction
  · rename_i cls em3 hcp
    split at h
    · contradiction
    · rename_i alloc halloc
      split at h
      · contradiction
      · rename_i noload hnoload
        injection h with h
        simp only [Prod.mk.injEq] at h
        obtain ⟨rfl, rfl⟩ := h
        refine ⟨cls, alloc, noload, rfl, halloc, hnoload, ?_⟩
        unfold classPart at hcp
        simp only [hc] at hcp
        split at hcp
        · contradiction
        · rename_i vc' hfind
          split at hcp
          · rename_i hin
            injection hcp with hcp; simp only [Prod.mk.injEq] at hcp; obtain ⟨rfl, rfl⟩ := hcp
            exact Or.inl ⟨hin, rfl, rfl⟩
          · rename_i hnin
            injection hcp with hcp; simp only [Prod.mk.injEq] at hcp; obtain ⟨rfl, rfl⟩ := hcp
            exact Or.inr ⟨hnin, vc', hfind, rfl, rfl⟩

/-- what one segment contributes to `endAssigns`, and what it does to "the class has been introduced". -/
theorem addSegment_end_lower (cx : Ctx) (c : Str) (em : List Str) (seg : Segment) (a : List Line) (em1 : List Str)
    (h : addSegment cx em seg = .ok (a, em1)) :
    (if shouldEmit cx.o seg.cond = true ∧ seg.vramClass = some c then (if c ∈ em then 1 else 2) else 0)
        ≤ assignCount (cx.d.settings.style.classEnd c) a ∧
    (c ∈ em1 ↔ c ∈ em ∨ (shouldEmit cx.o seg.cond = true ∧ seg.vramClass = some c)) := by
  by_cases hmem : shouldEmit cx.o seg.cond = true ∧ seg.vramClass = some c
  · obtain ⟨hem, hc⟩ := hmem
    obtain ⟨cls, alloc, noload, rfl, _, _, hcase⟩ := addSegment_member cx em seg a em1 c h hem hc
    have ht := segTail_assigns_end cx seg c hc
    simp only [hem, hc, and_self, if_true]
    rcases hcase with ⟨hin, rfl, rfl⟩ | ⟨hnin, vc', _, rfl, rfl⟩
    · refine ⟨?_, by simp [hin]⟩
      rw [segmentLines_front, assignCount_append]
      simp only [hin, if_true]; omega
    · refine ⟨?_, by simp⟩
      rw [segmentLines_cls, assignCount_append, segmentLines_front, assignCount_append]
      have := classIntro_assigns_end cx c vc'
      simp only [hnin, if_false]; omega
  · simp only [hmem, if_false, Nat.zero_le, true_and, or_false]
    rcases addSegment_cases cx em seg a em1 h with ⟨_, _, rfl⟩ | ⟨hem, cls, alloc, noload, _, _, _, hcl⟩
    · exact Iff.rfl
    · rcases hcl with ⟨_, rfl⟩ | ⟨cname, vc', hcn, _, hnew, _, rfl⟩
      · exact Iff.rfl
      · constructor
        · intro hm
          rcases List.mem_append.1 hm with h1 | h1
          · exact h1
          · exfalso
            rw [List.mem_singleton.1 h1] at hmem
            exact hmem ⟨hem, hcn⟩
        · intro hm; exact List.mem_append_left _ hm

/-- **the script assigns the class end symbol at least `endAssigns` times.** -/
theorem class_end_lower (cx : Ctx) (c : Str) : ∀ (segs : List Segment) (em : List Str) (ls : List Line) (em' : List Str)
    (_ : addSegments cx em segs = .ok (ls, em')),
    endAssigns cx.o c (decide (c ∈ em)) segs ≤ assignCount (cx.d.settings.style.classEnd c) ls := by
  intro segs
  induction segs with
  | nil => intro em ls em' _; simp [endAssigns]
  | cons seg rest ih =>
    intro em ls em' h
    simp only [addSegments] at h
    split at h
    · contradiction
    · rename_i a em1 hadd
      split at h
      · contradiction
      · rename_i b em2 hrest
        injection h with h
        simp only [Prod.mk.injEq] at h
        obtain ⟨rfl, _⟩ := h
        obtain ⟨hlow, hiff⟩ := addSegment_end_lower cx c em seg a em1 hadd
        have hb := ih em1 b em2 hrest
        rw [assignCount_append]
        unfold endAssigns
        by_cases hmem : shouldEmit cx.o seg.cond = true ∧ seg.vramClass = some c
        · have h1 : decide (c ∈ em1) = true := by simp [hiff, hmem]
          rw [h1] at hb
          simp only [hmem, and_self, if_true] at hlow ⊢
          by_cases hin : c ∈ em <;> simp [hin] at hlow ⊢ <;> omega
        · have h1 : decide (c ∈ em1) = decide (c ∈ em) := by simp [hiff, hmem]
          rw [h1] at hb
          simp only [hmem, if_false] at hlow ⊢
          omega

/-- the prologue of a class leaves 0 in its end symbol (whatever its start is). -/
theorem classIntro_end_zero (objs : List InSec) (cx : Ctx) (c : Str) (vc : VramClass) (st : St) (ho : Outside st) (k : List Line) :
    lookupLast (cx.d.settings.style.classEnd c) (execK objs st (classIntro cx c vc) k).syms = some (.num 0) := by
  have hce : cx.d.settings.style.classEnd c ≠ c!"." := endsOk_ne_dot _ (classEnd_ok _ _)
  have hshape : ∃ A, classIntro cx c vc = A ++ [Line.assign (cx.d.settings.style.classEnd c) (.hex8 0) false false true] ++ [.blank] := by
    unfold classIntro
    cases vc.fixedVram with
    | some v => exact ⟨[linkerSym (cx.d.settings.style.classStart c) (.hex8 v)], rfl⟩
    | none =>
      cases vc.fixedSymbol with
      | some fs => exact ⟨[linkerSym (cx.d.settings.style.classStart c) (.sym fs)], rfl⟩
      | none => exact ⟨linkerSym (cx.d.settings.style.classStart c) (.hex8 0) ::
          (followedUsed cx vc).map (fun other => maxSelf (cx.d.settings.style.classStart c) (cx.d.settings.style.classEnd other)), by simp [linkerSym]⟩
  obtain ⟨A, hA⟩ := hshape
  have hAo : ∀ l ∈ A, OuterLine l := by
    intro l hl
    exact (classIntro_outer cx c vc l (by rw [hA]; simp [hl])).1
  rw [hA, outer_assign_then_keep objs A [.blank] _ _ _ _ _ hce hAo
    (fun l hl => by rw [List.mem_singleton.1 hl]; exact .blank) (fun l hl => by rw [List.mem_singleton.1 hl]; simp [symOf]) st ho k]
  rfl

/-- what is known about the class end symbol behind some segments: it holds `E`, at least the value `base` it had in front
of them and at least the VRAM end `v` of every emitted member `m` among them, and equal to one of these. -/
structure EndFacts (sty : Style) (ls : List Line) (st' : St) (base E : Nat) (vs : List (Segment × Nat)) : Prop where
  ge_base : base ≤ E
  ge_all : ∀ mv ∈ vs, mv.2 ≤ E
  attained : E = base ∨ ∃ mv ∈ vs, E = mv.2
  vals : ∀ mv ∈ vs, assignCount (sty.segVramEnd mv.1.name) ls ≤ 1 → lookupLast (sty.segVramEnd mv.1.name) st'.syms = some (.num mv.2)

/-- **the class end symbol behind any number of segments.** -/
theorem class_end_kept (objs : List InSec) (cx : Ctx) (hsy : cx.emitSecSyms = true) (c : Str) :
    ∀ (segs : List Segment) (em : List Str) (ls : List Line) (em' : List Str)
      (_ : addSegments cx em segs = .ok (ls, em'))
      (_ : ∀ s ∈ segs, shouldEmit cx.o s.cond = true → s.allocSections ≠ [])
      (st : St) (_ : Outside st) (r : Nat) (_ : lookupLast Ld.romPos st.syms = some (.num r)) (k : List Line)
      (E0 : Nat) (_ : c ∈ em → lookupLast (cx.d.settings.style.classEnd c) st.syms = some (.num E0))
      (_ : assignCount (cx.d.settings.style.classEnd c) ls ≤ endAssigns cx.o c (decide (c ∈ em)) segs),
      ∃ (st' : St) (r' E : Nat) (vs : List (Segment × Nat)),
        st' = execK objs st ls k ∧ Outside st' ∧ lookupLast Ld.romPos st'.syms = some (.num r') ∧
        vs.map (·.1) = segs.filter (fun s => decide (shouldEmit cx.o s.cond = true ∧ s.vramClass = some c)) ∧
        (c ∈ em' → lookupLast (cx.d.settings.style.classEnd c) st'.syms = some (.num E)) ∧
        EndFacts cx.d.settings.style ls st' (if c ∈ em then E0 else 0) E vs := by
  generalize hce : cx.d.settings.style.classEnd c = ce
  intro segs
  induction segs with
  | nil =>
    intro em ls em' h _ st ho r hr k E0 hinv _
    simp only [addSegments] at h
    injection h with h
    simp only [Prod.mk.injEq] at h
    obtain ⟨rfl, rfl⟩ := h
    refine ⟨st, r, (if c ∈ em then E0 else 0), [], rfl, ho, hr, rfl, ?_, EndFacts.mk (Nat.le_refl _) (fun _ h => nomatch h) (Or.inl rfl) (fun _ h => nomatch h)⟩
    intro hm; simp only [hm, if_true]; exact hinv hm
  | cons seg rest ih =>
    intro em ls em' h hall st ho r hr k E0 hinv hcount
    simp only [addSegments] at h
    split at h
    · contradiction
    · rename_i a em1 hadd
      split at h
      · contradiction
      · rename_i b em2 hrest
        injection h with h
        simp only [Prod.mk.injEq] at h
        obtain ⟨rfl, rfl⟩ := h
        obtain ⟨hlow, hiff⟩ := addSegment_end_lower cx c em seg a em1 hadd
        have hblow := class_end_lower cx c rest em1 b em2 hrest
        rw [hce] at hlow hblow
        rw [assignCount_append] at hcount
        rw [execK_append]
        obtain ⟨_, st1, r1, e1, o1, hr1, _, _⟩ := C03.segments_vram_end objs cx hsy [seg] em a em1
          (by simp only [addSegments, hadd, List.append_nil])
          (fun s hs => hall s (by rw [List.mem_singleton.1 hs]; exact List.mem_cons_self)) st ho r hr (b ++ k)
        by_cases hmem : shouldEmit cx.o seg.cond = true ∧ seg.vramClass = some c
        · -- an emitted member of the class
          obtain ⟨hem, hc⟩ := hmem
          have hin1 : c ∈ em1 := hiff.2 (Or.inr ⟨hem, hc⟩)
          have hd1 : decide (c ∈ em1) = true := by simp [hin1]
          rw [hd1] at hblow
          simp only [hem, hc, and_self, if_true] at hlow
          have hcount' : assignCount ce a + assignCount ce b ≤ (if c ∈ em then 1 else 2) + endAssigns cx.o c true rest := by
            have : endAssigns cx.o c (decide (c ∈ em)) (seg :: rest) = (if c ∈ em then 1 else 2) + endAssigns cx.o c true rest := by
              simp only [endAssigns, hem, hc, and_self, if_true]
              by_cases hin : c ∈ em <;> simp [hin]
            rw [this] at hcount; exact hcount
          obtain ⟨cls, alloc, noload, rfl, ha, hn, hcase⟩ := addSegment_member cx em seg a em1 c hadd hem hc
          have ht := segTail_assigns_end cx seg c hc
          rw [hce] at ht
          -- the member: `ce` becomes max(e1, v)
          have hmember : ∃ v e1, e1 = (if c ∈ em then E0 else 0) ∧
              lookupLast (cx.d.settings.style.segVramEnd seg.name) st1.syms = some (.num v) ∧
              lookupLast ce st1.syms = some (.num (max e1 v)) := by
            rcases hcase with ⟨hin, rfl, rfl⟩ | ⟨hnin, vc', _, rfl, rfl⟩
            · have hf0 : assignCount ce (segFront cx seg [] alloc noload) = 0 := by
                rw [segmentLines_front, assignCount_append] at hlow hcount'
                simp only [hin, if_true] at hlow hcount'
                omega
              obtain ⟨v, hv, hcev⟩ := class_end_member objs cx seg c hc alloc noload ha hn st ho r hr (b ++ k) E0
                (by rw [hce]; exact hinv hin) (by rw [hce]; exact hf0)
              rw [hce] at hcev
              exact ⟨v, E0, by simp [hin], by rw [e1]; exact hv, by rw [e1]; exact hcev⟩
            · have hi := classIntro_assigns_end cx c vc'
              rw [hce] at hi
              have hf0 : assignCount ce (segFront cx seg [] alloc noload) = 0 := by
                rw [segmentLines_cls, assignCount_append, segmentLines_front, assignCount_append] at hlow hcount'
                simp only [hnin, if_false] at hlow hcount'
                omega
              have hz := classIntro_end_zero objs cx c vc' st ho (segmentLines cx seg [] alloc noload ++ (b ++ k))
              obtain ⟨oI, _, _, _⟩ := run_outer objs (classIntro cx c vc') (fun l hl => (classIntro_outer cx c vc' l hl).1) st ho
                (segmentLines cx seg [] alloc noload ++ (b ++ k))
              have rI := run_outer_keeps objs romPos (classIntro cx c vc') (fun l hl => (classIntro_outer cx c vc' l hl).1)
                (fun l hl => (classIntro_outer cx c vc' l hl).2) st ho (segmentLines cx seg [] alloc noload ++ (b ++ k))
              obtain ⟨v, hv, hcev⟩ := class_end_member objs cx seg c hc alloc noload ha hn _ oI r (rI.trans hr) (b ++ k) 0
                hz (by rw [hce]; exact hf0)
              rw [hce] at hcev
              rw [segmentLines_cls, execK_append] at e1
              exact ⟨v, 0, by simp [hnin], by rw [e1]; exact hv, by rw [e1]; exact hcev⟩
          obtain ⟨v, e1v, he1v, hv, hcev⟩ := hmember
          have hcb : assignCount ce b ≤ endAssigns cx.o c true rest := by
            by_cases hin : c ∈ em <;> simp [hin] at hlow hcount' <;> omega
          obtain ⟨st', r', E, vs, e', o', hr', hvs, hinv', hfacts⟩ := ih em1 b em2 hrest (fun s hs => hall s (List.mem_cons_of_mem _ hs))
            st1 o1 r1 hr1 k (max e1v v) (fun _ => by rw [hce] at *; exact hcev) (by rw [hd1]; rw [hce] at *; exact hcb)
          simp only [hin1, if_true] at hfacts
          have hA := C03.vramEnd_assigned cx seg cls alloc noload
          refine ⟨st', r', E, (seg, v) :: vs, by rw [e', e1], o', hr', ?_, hinv', ?_⟩
          · simp only [List.map_cons, List.filter_cons, hem, hc, and_self, decide_true, if_true, hvs]
          · refine ⟨?_, ?_, ?_, ?_⟩
            · have := hfacts.ge_base; rw [← he1v]; omega
            · intro mv hmv
              rcases List.mem_cons.1 hmv with rfl | hmv
              · have := hfacts.ge_base; simp only; omega
              · exact hfacts.ge_all mv hmv
            · rcases hfacts.attained with hE | ⟨mv, hmv, hE⟩
              · by_cases hle : e1v ≤ v
                · exact Or.inr ⟨(seg, v), List.mem_cons_self, by rw [hE]; simp only; omega⟩
                · exact Or.inl (by rw [hE, ← he1v]; omega)
              · exact Or.inr ⟨mv, List.mem_cons_of_mem _ hmv, hE⟩
            · intro mv hmv hcnt
              rw [assignCount_append] at hcnt
              rcases List.mem_cons.1 hmv with rfl | hmv
              · simp only at hcnt ⊢
                rw [e', execK_keeps_count objs _ b st1 k (by omega)]; exact hv
              · exact hfacts.vals mv hmv (by omega)
        · -- any other segment: the class end symbol is not assigned
          simp only [hmem, if_false] at hlow
          have hd1 : decide (c ∈ em1) = decide (c ∈ em) := by simp [hiff, hmem]
          rw [hd1] at hblow
          have hend : endAssigns cx.o c (decide (c ∈ em)) (seg :: rest) = endAssigns cx.o c (decide (c ∈ em)) rest := by
            simp only [endAssigns, hmem, if_false]
          rw [hend] at hcount
          have ha0 : assignCount ce a = 0 := by omega
          have hinv1 : c ∈ em1 → lookupLast ce st1.syms = some (.num E0) := by
            intro hm
            have hin : c ∈ em := by
              rcases hiff.1 hm with h1 | h1
              · exact h1
              · exact absurd h1 hmem
            rw [e1, execK_keeps_count objs ce a st (b ++ k) ha0]; exact hinv hin
          obtain ⟨st', r', E, vs, e', o', hr', hvs, hinv', hfacts⟩ := ih em1 b em2 hrest (fun s hs => hall s (List.mem_cons_of_mem _ hs))
            st1 o1 r1 hr1 k E0 hinv1 (by rw [hd1]; omega)
          have hbase : (if c ∈ em1 then E0 else 0) = (if c ∈ em then E0 else 0) := by
            by_cases hin : c ∈ em
            · simp [hin, hiff.2 (Or.inl hin)]
            · have : c ∉ em1 := fun hm => by
                rcases hiff.1 hm with h1 | h1
                · exact hin h1
                · exact hmem h1
              simp [hin, this]
          rw [hbase] at hfacts
          refine ⟨st', r', E, vs, by rw [e', e1], o', hr', ?_, hinv', ?_⟩
          · simp only [List.filter_cons, hmem, decide_false, Bool.false_eq_true, if_false, hvs]
          · exact ⟨hfacts.ge_base, hfacts.ge_all, hfacts.attained, fun mv hmv hcnt => hfacts.vals mv hmv (by rw [assignCount_append] at hcnt; omega)⟩

/-- a class with an emitted member has been introduced behind the segments. -/
theorem member_introduced (cx : Ctx) (c : Str) : ∀ (segs : List Segment) (em : List Str) (ls : List Line) (em' : List Str)
    (_ : addSegments cx em segs = .ok (ls, em')),
    (c ∈ em ∨ ∃ s ∈ segs, shouldEmit cx.o s.cond = true ∧ s.vramClass = some c) → c ∈ em' := by
  intro segs
  induction segs with
  | nil =>
    intro em ls em' h hm
    simp only [addSegments] at h
    injection h with h
    simp only [Prod.mk.injEq] at h
    obtain ⟨_, rfl⟩ := h
    rcases hm with hm | ⟨s, hs, _⟩
    · exact hm
    · cases hs
  | cons seg rest ih =>
    intro em ls em' h hm
    simp only [addSegments] at h
    split at h
    · contradiction
    · rename_i a em1 hadd
      split at h
      · contradiction
      · rename_i b em2 hrest
        injection h with h
        simp only [Prod.mk.injEq] at h
        obtain ⟨_, rfl⟩ := h
        obtain ⟨_, hiff⟩ := addSegment_end_lower cx c em seg a em1 hadd
        apply ih em1 b em2 hrest
        rcases hm with hm | ⟨s, hs, hse⟩
        · exact Or.inl (hiff.2 (Or.inl hm))
        · rcases List.mem_cons.1 hs with rfl | hs
          · exact Or.inl (hiff.2 (Or.inr hse))
          · exact Or.inr ⟨s, hs, hse⟩

/-- **C10 in the linked image, for the whole ordinary script of a document: the end of a vram class.** For every document in
multi-segment mode whose emitted segments have an allocatable section, every option set, object table and `--defsym` table, and
every class with an emitted member: when the script assigns the class end symbol no more often than the prologue and one `MAX`
per emitted member do, the image `Ld.link` computes holds a number `E` in the class end symbol and, for every emitted member,
a number `v` — its VRAM end symbol in the image, when the script assigns that once — with `v ≤ E`, and `E` is 0 or one of
these `v`: the class ends where its last-ending member ends. -/
theorem final_class_end (objs : List InSec) (d : Document) (o : Opts) (vc : Bool) (script : List Line)
    (hmulti : d.settings.singleSegmentMode = false)
    (h : generateNormal d o vc = .ok script)
    (hall : ∀ s ∈ d.segments, shouldEmit o s.cond = true → s.allocSections ≠ [])
    (defsyms : List (Str × Nat)) (c : Str)
    (hused : ∃ s ∈ d.segments, shouldEmit o s.cond = true ∧ s.vramClass = some c)
    (hcount : assignCount (d.settings.style.classEnd c) script ≤ endAssigns o c false d.segments) :
    ∃ (E : Nat) (vs : List (Segment × Nat)),
      (link objs defsyms script).sym (d.settings.style.classEnd c) = some E ∧
      vs.map (·.1) = d.segments.filter (fun s => decide (shouldEmit o s.cond = true ∧ s.vramClass = some c)) ∧
      (∀ mv ∈ vs, mv.2 ≤ E ∧ (assignCount (d.settings.style.segVramEnd mv.1.name) script ≤ 1 →
          (link objs defsyms script).sym (d.settings.style.segVramEnd mv.1.name) = some mv.2)) ∧
      (E = 0 ∨ ∃ mv ∈ vs, E = mv.2) := by
  unfold generateNormal at h
  split at h
  · contradiction
  · rename_i body hbody
    injection h with h
    subst h
    unfold addAllSegments at hbody
    simp only [hmulti, Bool.false_eq_true, if_false] at hbody
    split at hbody
    · contradiction
    · rename_i ls emitted hsegs
      injection hbody with hbody
      subst hbody
      generalize hcx : ({ d := d, o := o } : Ctx) = cx at *
      have hd : cx.d = d := by rw [← hcx]
      have ho' : cx.o = o := by rw [← hcx]
      have hsy : cx.emitSecSyms = true := by rw [← hcx]
      generalize hT : endSections cx emitted ++ topLevel d o = T
      have hform : versionComment vc ++ (beginSections cx ++ ls ++ endSections cx emitted) ++ topLevel d o
          = versionComment vc ++ (beginSections cx ++ (ls ++ T)) := by rw [← hT]; simp [List.append_assoc]
      rw [hform] at hcount ⊢
      have hb0 : ∀ n, assignCount n (versionComment vc) = 0 := fun n => Slinky.C04.assignCount_quiet n _ (Slinky.C04.versionComment_quiet vc)
      simp only [assignCount_append, hb0] at hcount
      have hlow := class_end_lower cx c d.segments [] ls emitted hsegs
      rw [hd, ho'] at hlow
      simp only [List.not_mem_nil, decide_false] at hlow
      rw [link_eq]
      generalize carry _ = S0
      rw [execK_append, Slinky.C04.execK_quiet objs _ (Slinky.C04.versionComment_quiet vc)]
      rw [execK_append, execK_append]
      have hb : ∃ st1, st1 = execK objs { syms := S0 } (beginSections cx) (ls ++ T ++ []) ∧ Outside st1 ∧
          lookupLast Ld.romPos st1.syms = some (.num 0) := by
        refine ⟨_, rfl, ?_, ?_⟩
        · unfold beginSections
          cases cx.d.settings.hardcodedGpValue <;> simp [execK, step, setSym] <;> exact ⟨rfl, rfl⟩
        · unfold beginSections
          cases cx.d.settings.hardcodedGpValue <;> simp [execK, step, setSym, eval, lookupLast_snoc, lookupLast_snoc2, Ld.romPos]
      obtain ⟨st1, e1, o1, r1⟩ := hb
      rw [← e1]
      obtain ⟨st', r', E, vs, e', _, _, hvs, hinv', hfacts⟩ := class_end_kept objs cx hsy c d.segments [] ls emitted hsegs
        (by rw [ho']; exact hall) st1 o1 0 r1 (T ++ []) 0 (fun hm => nomatch hm)
        (by rw [hd, ho']; simp only [List.not_mem_nil, decide_false]; omega)
      have hin : c ∈ emitted := member_introduced cx c d.segments [] ls emitted hsegs (Or.inr (by rw [ho']; exact hused))
      have hE := hinv' hin
      rw [hd] at hE hfacts
      rw [ho'] at hvs
      simp only [List.not_mem_nil, if_false] at hfacts
      rw [← e']
      refine ⟨E, vs, ?_, hvs, ?_, hfacts.attained⟩
      · rw [imageOf_sym, execK_keeps_count objs _ T st' [] (by omega), hE]; rfl
      · intro mv hmv
        refine ⟨hfacts.ge_all mv hmv, fun hcnt => ?_⟩
        simp only [assignCount_append, hb0] at hcnt
        have hge : 1 ≤ assignCount (d.settings.style.segVramEnd mv.1.name) ls := by
          obtain ⟨zs, _, _, _, _, _, hzs, hz⟩ := Slinky.C03.segments_vram_end objs cx hsy d.segments [] ls emitted hsegs
            (by rw [ho']; exact hall) st1 o1 0 r1 []
          have hm1 : mv.1 ∈ d.segments.filter (fun s => shouldEmit cx.o s.cond) := by
            have : mv.1 ∈ vs.map (·.1) := List.mem_map.2 ⟨mv, hmv, rfl⟩
            rw [hvs] at this
            have h2 := List.mem_filter.1 this
            have h3 := of_decide_eq_true h2.2
            exact List.mem_filter.2 ⟨h2.1, by rw [ho']; exact h3.1⟩
          rw [← hzs] at hm1
          obtain ⟨z, hzm, hz1⟩ := List.mem_map.1 hm1
          have := (hz z hzm).2.2.2.2
          rw [hd] at this
          rw [← hz1]; exact this
        rw [imageOf_sym, execK_keeps_count objs _ T st' [] (by omega), hfacts.vals mv hmv (by omega)]; rfl

/-- the hypotheses are met, and the numbers are real: the two members of `ovl` (`exDocC`) end at 0x8010000D and 0x80100000;
the class ends at the larger; the script assigns the class end symbol three times (prologue, two `MAX`). -/
example : (match generateNormal exDocC C04.exOpts false with
    | .ok script =>
      decide (assignCount c!"ovl_VRAM_CLASS_END" script = 3) && decide (endAssigns C04.exOpts c!"ovl" false exDocC.segments = 3)
      && decide ((link C04.exObjs [] script).sym c!"ovl_a_VRAM_END" = some 0x8010000D)
      && decide ((link C04.exObjs [] script).sym c!"ovl_b_VRAM_END" = some 0x80100000)
      && decide ((link C04.exObjs [] script).sym c!"ovl_VRAM_CLASS_END" = some 0x8010000D)
    | .error _ => false) = true := by decide +kernel

end Slinky.C10
