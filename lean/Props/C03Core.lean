/-
  GENERATED-BY-HAND-ONCE from the proofs of the whole-script theorems (the generator was a throw-away script): the same
  proofs with the writer context `cx`, the segment list and the statements `T` that follow the segments left open.
  `the `_partial` theorems below` instantiates them for the main script of partial mode (`generatePartial`), whose segment part is `add_segment` in
  the reference-to-partial-object context over the emitted segments with their file lists replaced by the partial object
  (`C04.partialSegments_main`).
-/
import Props.C03Start
namespace Slinky.C03
open Slinky W Ld

/-- `final_vram_end` for any writer context and any statements behind the segments. -/
theorem vram_end_core (objs : List InSec) (cx : Ctx) (hsy : cx.emitSecSyms = true) (vc : Bool)
    (segs : List Segment) (ls : List Line) (emitted : List Str) (T : List Line)
    (hsegs : addSegments cx [] segs = .ok (ls, emitted))
    (hall : ∀ s ∈ segs, shouldEmit cx.o s.cond = true → s.allocSections ≠ [])
    (defsyms : List (Str × Nat)) :
    ∃ zs : List (Segment × Nat × Nat × Nat),
      zs.map (·.1) = segs.filter (fun s => shouldEmit cx.o s.cond) ∧
      ∀ z ∈ zs, z.2.1 ≤ z.2.2.1 ∧ z.2.2.1 ≤ z.2.2.2 ∧
        (∃ os ∈ (link objs defsyms (versionComment vc ++ (beginSections cx ++ ls ++ T))).secs, os.name = c!"." ++ z.1.name ∧ os.addr = z.2.1 ∧ os.size = z.2.2.1 - z.2.1 ∧ os.noload = false) ∧
        (assignCount (cx.d.settings.style.segVramEnd z.1.name) (versionComment vc ++ (beginSections cx ++ ls ++ T)) ≤ 1 →
          (link objs defsyms (versionComment vc ++ (beginSections cx ++ ls ++ T))).sym (cx.d.settings.style.segVramEnd z.1.name)
            = some (alignO z.1.segmentEndAlign z.2.2.2)) := by
  generalize hd : cx.d = d at *
  generalize ho' : cx.o = o at *
  have hform : versionComment vc ++ (beginSections cx ++ ls ++ T)
      = versionComment vc ++ (beginSections cx ++ (ls ++ T)) := by simp [List.append_assoc]
  rw [hform, link_eq]
  generalize carry _ = S0
  rw [execK_append, Slinky.C04.execK_quiet objs _ (Slinky.C04.versionComment_quiet vc)]
  rw [execK_append, execK_append]
  have hb : ∃ st1, st1 = execK objs { syms := S0 } (beginSections cx) (ls ++ T ++ []) ∧ Outside st1 ∧
      lookupLast Ld.romPos st1.syms = some (.num 0) := by
    refine ⟨_, rfl, ?_, ?_⟩
    · unfold beginSections
      cases cx.d.settings.hardcodedGpValue <;> simp [execK, step, setSym] <;> exact ⟨rfl, rfl⟩
    · unfold beginSections
      cases cx.d.settings.hardcodedGpValue <;> simp [execK, step, setSym, eval, lookupLast_snoc, lookupLast_snoc2, Ld.romPos]
  obtain ⟨st1, e1, o1, r1⟩ := hb
  rw [← e1]
  obtain ⟨zs, st', r', e, _, _, hz, hf⟩ := segments_vram_end objs cx hsy segs [] ls emitted
    hsegs (by rw [ho']; exact hall) st1 o1 0 r1 (T ++ [])
  rw [← e]
  obtain ⟨extra, hx⟩ := execK_secs objs T st' []
  refine ⟨zs, by rw [hz, ho'], ?_⟩
  intro z hzm
  obtain ⟨f1, f2, ⟨os, hos, g1, g2, g3, g4⟩, f4, f5⟩ := hf z hzm
  rw [hd] at f4 f5
  refine ⟨f1, f2, ⟨os, by simp only [imageOf]; rw [hx]; exact List.mem_append_left _ hos, g1, g2, g3, g4⟩, ?_⟩
  intro hc
  have hb0 : ∀ n, assignCount n (versionComment vc) = 0 := fun n => Slinky.C04.assignCount_quiet n _ (Slinky.C04.versionComment_quiet vc)
  simp only [assignCount_append, hb0] at hc
  rw [imageOf_sym, execK_keeps_count objs _ T st' [] (by omega), f4 (by omega)]
  rfl

/-- `final_follows_segment` for any writer context. -/
theorem follows_segment_core (objs : List InSec) (cx : Ctx) (hsy : cx.emitSecSyms = true) (vc : Bool)
    (segs : List Segment) (ls : List Line) (emitted : List Str) (T : List Line)
    (hsegs : addSegments cx [] segs = .ok (ls, emitted))
    (hall : ∀ s ∈ segs, shouldEmit cx.o s.cond = true → s.allocSections ≠ [])
    (defsyms : List (Str × Nat))
    (pre post : List Segment) (seg f : Segment) (hsplit : segs = pre ++ seg :: post)
    (hf : f ∈ pre) (hfinc : shouldEmit cx.o f.cond = true) (hinc : shouldEmit cx.o seg.cond = true)
    (hfv : seg.fixedVram = none) (hfs : seg.fixedSymbol = none) (hfol : seg.followsSegment = some f.name)
    (hcnt : assignCount (cx.d.settings.style.segVramEnd f.name) (versionComment vc ++ (beginSections cx ++ ls ++ T)) ≤ 1) :
    ∃ os ∈ (link objs defsyms (versionComment vc ++ (beginSections cx ++ ls ++ T))).secs, os.name = c!"." ++ seg.name ∧ os.noload = false ∧
      (link objs defsyms (versionComment vc ++ (beginSections cx ++ ls ++ T))).sym (cx.d.settings.style.segVramEnd f.name) = some os.addr := by
  generalize hd : cx.d = d at *
  generalize ho' : cx.o = o at *
  rw [hsplit] at hsegs
  obtain ⟨lsPre, em1, lsSeg, em2, lsPost, hpre, hseg, hpost, rfl⟩ := addSegments_split cx pre seg post [] ls emitted hsegs
  have hform : versionComment vc ++ (beginSections cx ++ (lsPre ++ (lsSeg ++ lsPost)) ++ T)
      = versionComment vc ++ (beginSections cx ++ (lsPre ++ (lsSeg ++ (lsPost ++ T)))) := by
    simp [List.append_assoc]
  rw [hform] at hcnt ⊢
  rw [link_eq]
  generalize carry _ = S0
  rw [execK_append, Slinky.C04.execK_quiet objs _ (Slinky.C04.versionComment_quiet vc)]
  rw [execK_append, execK_append, execK_append]
  have hb : ∃ st1, st1 = execK objs { syms := S0 } (beginSections cx) (lsPre ++ (lsSeg ++ (lsPost ++ T)) ++ []) ∧ Outside st1 ∧
      lookupLast Ld.romPos st1.syms = some (.num 0) := by
    refine ⟨_, rfl, ?_, ?_⟩
    · unfold beginSections
      cases cx.d.settings.hardcodedGpValue <;> simp [execK, step, setSym] <;> exact ⟨rfl, rfl⟩
    · unfold beginSections
      cases cx.d.settings.hardcodedGpValue <;> simp [execK, step, setSym, eval, lookupLast_snoc, lookupLast_snoc2, Ld.romPos]
  obtain ⟨st1, e1, o1, r1⟩ := hb
  rw [← e1]
  have hallc : ∀ s ∈ pre ++ seg :: post, shouldEmit cx.o s.cond = true → s.allocSections ≠ [] := by
    rw [ho', ← hsplit]; exact hall
  -- the followed segment, behind the segments in front
  obtain ⟨zs, st2, r2, e2, o2, hr2, hz, hfacts⟩ := segments_vram_end objs cx hsy pre [] lsPre em1 hpre
    (fun s hs => hallc s (List.mem_append_left _ hs)) st1 o1 0 r1 (lsSeg ++ (lsPost ++ T) ++ [])
  rw [← e2]
  have hfm : f ∈ zs.map (·.1) := by
    rw [hz]; exact List.mem_filter.2 ⟨hf, by rw [ho']; simpa using hfinc⟩
  obtain ⟨z, hzm, rfl⟩ := List.mem_map.1 hfm
  obtain ⟨_, _, _, f4, f5⟩ := hfacts z hzm
  rw [hd] at f4 f5
  generalize hname : d.settings.style.segVramEnd z.1.name = a at *
  have hb0 : assignCount a (versionComment vc) = 0 := Slinky.C04.assignCount_quiet a _ (Slinky.C04.versionComment_quiet vc)
  simp only [assignCount_append, hb0] at hcnt
  have hx := f4 (by omega)
  -- the segment itself
  have hsa : segAddr cx seg = some a := by
    unfold segAddr; simp [hfv, hfs, hfol, hd, hname]
  have hadot : a ≠ c!"." := by rw [← hname]; exact endsOk_ne_dot _ (segVramEnd_ok _ _)
  have harom : a ≠ romPos := by rw [← hname]; exact ne_romPos (segVramEnd_ok _ _)
  obtain ⟨os, hos, g1, g2, g3⟩ := segment_sym_addr objs cx hsy em1 seg lsSeg em2 hseg (by rw [ho']; exact hinc)
    (hallc seg (List.mem_append_right _ List.mem_cons_self) (by rw [ho']; exact hinc))
    st2 o2 r2 hr2 (lsPost ++ T ++ []) a hsa hadot harom _ hx (by omega)
  obtain ⟨extra, hxs⟩ := execK_secs objs (lsPost ++ T) (execK objs st2 lsSeg (lsPost ++ T ++ [])) []
  refine ⟨os, ?_, g1, g3, ?_⟩
  · simp only [imageOf]; rw [hxs]; exact List.mem_append_left _ hos
  · rw [imageOf_sym, execK_keeps_count objs a (lsPost ++ T) _ [] (by rw [assignCount_append]; omega),
      execK_keeps_count objs a lsSeg st2 _ (by omega), hx, g2]
    rfl

/-- `final_fixed_symbol` for any writer context. -/
theorem fixed_symbol_core (objs : List InSec) (cx : Ctx) (hsy : cx.emitSecSyms = true) (vc : Bool)
    (segs : List Segment) (ls : List Line) (emitted : List Str) (T : List Line)
    (hsegs : addSegments cx [] segs = .ok (ls, emitted))
    (hall : ∀ s ∈ segs, shouldEmit cx.o s.cond = true → s.allocSections ≠ [])
    (defsyms : List (Str × Nat))
    (pre post : List Segment) (seg : Segment) (hsplit : segs = pre ++ seg :: post)
    (hinc : shouldEmit cx.o seg.cond = true)
    (hfv : seg.fixedVram = none) (a : Str) (hfs : seg.fixedSymbol = some a) (hadot : a ≠ c!".") (harom : a ≠ romPos)
    (x : Nat) (hds : lookupLast a (defsyms.map fun kv => (kv.1, Val.num kv.2)) = some (.num x))
    (hcnt : assignCount a (versionComment vc ++ (beginSections cx ++ ls ++ T)) = 0) :
    ∃ os ∈ (link objs defsyms (versionComment vc ++ (beginSections cx ++ ls ++ T))).secs, os.name = c!"." ++ seg.name ∧ os.noload = false ∧ os.addr = x := by
  have hstart : lookupLast a (carry (passes objs (versionComment vc ++ (beginSections cx ++ ls ++ T)) (defsyms.map fun kv => (kv.1, Val.num kv.2)) 1)) = some (.num x) :=
    carry_num _ a x (passes_num objs (versionComment vc ++ (beginSections cx ++ ls ++ T)) _ a x hds hcnt 1)
  rw [link_eq]
  generalize carry _ = S0 at hstart ⊢
  generalize hd : cx.d = d at *
  generalize ho' : cx.o = o at *
  rw [hsplit] at hsegs
  obtain ⟨lsPre, em1, lsSeg, em2, lsPost, hpre, hseg, hpost, rfl⟩ := addSegments_split cx pre seg post [] ls emitted hsegs
  have hform : versionComment vc ++ (beginSections cx ++ (lsPre ++ (lsSeg ++ lsPost)) ++ T)
      = versionComment vc ++ (beginSections cx ++ (lsPre ++ (lsSeg ++ (lsPost ++ T)))) := by
    simp [List.append_assoc]
  rw [hform] at hcnt ⊢
  simp only [assignCount_append] at hcnt
  rw [execK_append, Slinky.C04.execK_quiet objs _ (Slinky.C04.versionComment_quiet vc)]
  rw [execK_append, execK_append, execK_append]
  have hb : ∃ st1, st1 = execK objs { syms := S0 } (beginSections cx) (lsPre ++ (lsSeg ++ (lsPost ++ T)) ++ []) ∧ Outside st1 ∧
      lookupLast Ld.romPos st1.syms = some (.num 0) := by
    refine ⟨_, rfl, ?_, ?_⟩
    · unfold beginSections
      cases cx.d.settings.hardcodedGpValue <;> simp [execK, step, setSym] <;> exact ⟨rfl, rfl⟩
    · unfold beginSections
      cases cx.d.settings.hardcodedGpValue <;> simp [execK, step, setSym, eval, lookupLast_snoc, lookupLast_snoc2, Ld.romPos]
  obtain ⟨st1, e1, o1, r1⟩ := hb
  have hx1 : lookupLast a st1.syms = some (.num x) := by
    rw [e1, execK_keeps_count objs a _ _ _ (by omega)]; exact hstart
  rw [← e1]
  have hallc : ∀ s ∈ pre ++ seg :: post, shouldEmit cx.o s.cond = true → s.allocSections ≠ [] := by
    rw [ho', ← hsplit]; exact hall
  obtain ⟨zs, st2, r2, e2, o2, hr2, _, _⟩ := segments_vram_end objs cx hsy pre [] lsPre em1 hpre
    (fun s hs => hallc s (List.mem_append_left _ hs)) st1 o1 0 r1 (lsSeg ++ (lsPost ++ T) ++ [])
  have hx2 : lookupLast a st2.syms = some (.num x) := by
    rw [e2, execK_keeps_count objs a _ _ _ (by omega)]; exact hx1
  rw [← e2]
  have hsa : segAddr cx seg = some a := by
    unfold segAddr; simp [hfv, hfs]
  obtain ⟨os, hos, g1, g2, g3⟩ := segment_sym_addr objs cx hsy em1 seg lsSeg em2 hseg (by rw [ho']; exact hinc)
    (hallc seg (List.mem_append_right _ List.mem_cons_self) (by rw [ho']; exact hinc))
    st2 o2 r2 hr2 (lsPost ++ T ++ []) a hsa hadot harom x hx2 (by omega)
  obtain ⟨extra, hxs⟩ := execK_secs objs (lsPost ++ T) (execK objs st2 lsSeg (lsPost ++ T ++ [])) []
  exact ⟨os, by simp only [imageOf]; rw [hxs]; exact List.mem_append_left _ hos, g1, g3, g2⟩

/-- `final_default_placement` for any writer context. -/
theorem default_placement_core (objs : List InSec) (cx : Ctx) (hsy : cx.emitSecSyms = true) (vc : Bool)
    (segs : List Segment) (ls : List Line) (emitted : List Str) (T : List Line)
    (hsegs : addSegments cx [] segs = .ok (ls, emitted))
    (hall : ∀ s ∈ segs, shouldEmit cx.o s.cond = true → s.allocSections ≠ [])
    (defsyms : List (Str × Nat))
    (pre post : List Segment) (seg : Segment) (hsplit : segs = pre ++ seg :: post)
    (hinc : shouldEmit cx.o seg.cond = true)
    (hfv : seg.fixedVram = none) (hfs : seg.fixedSymbol = none) (hfol : seg.followsSegment = none) (hcl : seg.vramClass = none) :
    ∃ os ∈ (link objs defsyms (versionComment vc ++ (beginSections cx ++ ls ++ T))).secs, os.name = c!"." ++ seg.name ∧ os.noload = false ∧ 1 ≤ os.align ∧
      match lastEmitted cx.o none pre with
      | none => os.addr = Ld.alignUp (alignO seg.segmentStartAlign 0) os.align
      | some f => assignCount (cx.d.settings.style.segVramEnd f.name) (versionComment vc ++ (beginSections cx ++ ls ++ T)) ≤ 1 →
          ∃ e, (link objs defsyms (versionComment vc ++ (beginSections cx ++ ls ++ T))).sym (cx.d.settings.style.segVramEnd f.name) = some e ∧
            os.addr = Ld.alignUp (alignO seg.segmentStartAlign e) os.align := by
  generalize hd : cx.d = d at *
  generalize ho' : cx.o = o at *
  rw [hsplit] at hsegs
  obtain ⟨lsPre, em1, lsSeg, em2, lsPost, hpre, hseg, hpost, rfl⟩ := addSegments_split cx pre seg post [] ls emitted hsegs
  have hform : versionComment vc ++ (beginSections cx ++ (lsPre ++ (lsSeg ++ lsPost)) ++ T)
      = versionComment vc ++ (beginSections cx ++ (lsPre ++ (lsSeg ++ (lsPost ++ T)))) := by
    simp [List.append_assoc]
  rw [hform, link_eq]
  generalize carry _ = S0
  rw [execK_append, Slinky.C04.execK_quiet objs _ (Slinky.C04.versionComment_quiet vc)]
  rw [execK_append, execK_append, execK_append]
  have hb : ∃ st1, st1 = execK objs { syms := S0 } (beginSections cx) (lsPre ++ (lsSeg ++ (lsPost ++ T)) ++ []) ∧ Outside st1 ∧
      lookupLast Ld.romPos st1.syms = some (.num 0) ∧ st1.dot = 0 := by
    refine ⟨_, rfl, ?_, ?_, ?_⟩
    · unfold beginSections
      cases cx.d.settings.hardcodedGpValue <;> simp [execK, step, setSym] <;> exact ⟨rfl, rfl⟩
    · unfold beginSections
      cases cx.d.settings.hardcodedGpValue <;> simp [execK, step, setSym, eval, lookupLast_snoc, lookupLast_snoc2, Ld.romPos]
    · unfold beginSections
      cases cx.d.settings.hardcodedGpValue <;> simp [execK, step, setSym]
  obtain ⟨st1, e1, o1, r1, hdot1⟩ := hb
  rw [← e1]
  have hallc : ∀ s ∈ pre ++ seg :: post, shouldEmit cx.o s.cond = true → s.allocSections ≠ [] := by
    rw [ho', ← hsplit]; exact hall
  obtain ⟨st2, r2, e2, o2, hr2, hinv⟩ := segments_last_end objs cx hsy 0 pre [] lsPre em1 hpre
    (fun s hs => hallc s (List.mem_append_left _ hs)) st1 o1 0 r1 (lsSeg ++ (lsPost ++ T) ++ []) none hdot1
  rw [← e2]
  have hsa : segAddr cx seg = none := by
    unfold segAddr; simp [hfv, hfs, hfol, hcl]
  obtain ⟨os, hos, g1, g2, g3, g4⟩ := segment_default_addr objs cx hsy em1 seg lsSeg em2 hseg (by rw [ho']; exact hinc)
    (hallc seg (List.mem_append_right _ List.mem_cons_self) (by rw [ho']; exact hinc))
    st2 o2 r2 hr2 (lsPost ++ T ++ []) hsa
  obtain ⟨extra, hxs⟩ := execK_secs objs (lsPost ++ T) (execK objs st2 lsSeg (lsPost ++ T ++ [])) []
  refine ⟨os, by simp only [imageOf]; rw [hxs]; exact List.mem_append_left _ hos, g1, g2, g3, ?_⟩
  rw [ho', hd] at hinv
  cases hl : lastEmitted o none pre with
  | none =>
    rw [hl] at hinv
    simp only [EndInv] at hinv
    rw [g4, hinv]
  | some f =>
    rw [hl] at hinv
    simp only [EndInv] at hinv
    intro hcnt
    generalize hname : d.settings.style.segVramEnd f.name = a at *
    have hfm : f ∈ pre.filter (fun s => shouldEmit o s.cond) := by
      unfold lastEmitted at hl
      cases hg : (pre.filter (fun s => shouldEmit o s.cond)).getLast? with
      | none => rw [hg] at hl; cases hl
      | some g =>
        rw [hg] at hl
        injection hl with hl
        subst hl
        exact List.mem_of_getLast? hg
    -- the name is assigned among the statements in front, hence nowhere else
    obtain ⟨zs, _, _, _, _, _, hz, hfacts⟩ := segments_vram_end objs cx hsy pre [] lsPre em1 hpre
      (fun s hs => hallc s (List.mem_append_left _ hs)) st1 o1 0 r1 (lsSeg ++ (lsPost ++ T) ++ [])
    have hfz : f ∈ zs.map (·.1) := by rw [hz, ho']; exact hfm
    obtain ⟨z, hzm, rfl⟩ := List.mem_map.1 hfz
    obtain ⟨_, _, _, _, f5⟩ := hfacts z hzm
    rw [hd, hname] at f5
    have hb0 : assignCount a (versionComment vc) = 0 := Slinky.C04.assignCount_quiet a _ (Slinky.C04.versionComment_quiet vc)
    simp only [assignCount_append, hb0] at hcnt
    refine ⟨st2.dot, ?_, g4⟩
    rw [imageOf_sym, execK_keeps_count objs a (lsPost ++ T) _ [] (by rw [assignCount_append]; omega),
      execK_keeps_count objs a lsSeg st2 _ (by omega), hinv]
    rfl

/-- `final_vram_start` for any writer context. -/
theorem vram_start_core (objs : List InSec) (cx : Ctx) (hsy : cx.emitSecSyms = true) (vc : Bool)
    (segs : List Segment) (ls : List Line) (emitted : List Str) (T : List Line)
    (hsegs : addSegments cx [] segs = .ok (ls, emitted))
    (hall : ∀ s ∈ segs, shouldEmit cx.o s.cond = true → s.allocSections ≠ [])
    (defsyms : List (Str × Nat))
    (pre post : List Segment) (seg : Segment) (hsplit : segs = pre ++ seg :: post)
    (hinc : shouldEmit cx.o seg.cond = true)
    (hcnt : assignCount (cx.d.settings.style.segVramStart seg.name) (versionComment vc ++ (beginSections cx ++ ls ++ T)) ≤ 1)
    (hhdr : hdrCount (c!"." ++ seg.name) (versionComment vc ++ (beginSections cx ++ ls ++ T)) ≤ 1) :
    ∃ os ∈ (link objs defsyms (versionComment vc ++ (beginSections cx ++ ls ++ T))).secs, os.name = c!"." ++ seg.name ∧ os.noload = false ∧
      (link objs defsyms (versionComment vc ++ (beginSections cx ++ ls ++ T))).sym (cx.d.settings.style.segVramStart seg.name) = some os.addr ∧
      (assignCount (cx.d.settings.style.segVramEnd seg.name) (versionComment vc ++ (beginSections cx ++ ls ++ T)) ≤ 1 →
        ∃ e, (link objs defsyms (versionComment vc ++ (beginSections cx ++ ls ++ T))).sym (cx.d.settings.style.segVramEnd seg.name) = some e ∧ os.addr + os.size ≤ e) := by
  -- the output section is in the image
  obtain ⟨zs, hz, hfacts⟩ := vram_end_core objs cx hsy vc segs ls emitted T hsegs hall defsyms
  have hsm : seg ∈ zs.map (·.1) := by
    rw [hz, hsplit]; exact List.mem_filter.2 ⟨List.mem_append_right _ List.mem_cons_self, by simpa using hinc⟩
  obtain ⟨z, hzm, rfl⟩ := List.mem_map.1 hsm
  obtain ⟨f1, f2, ⟨os, hos, g1, g2, g3, g4⟩, f4⟩ := hfacts z hzm
  refine ⟨os, hos, g1, g4, ?_, ?_⟩
  rotate_left
  · intro hc
    refine ⟨_, f4 hc, ?_⟩
    rw [g2, g3]
    have : z.2.2.2 ≤ alignO z.1.segmentEndAlign z.2.2.2 := by
      unfold alignO; split
      · exact le_alignUp _ _
      · exact Nat.le_refl _
    omega
  rw [link_eq] at hos ⊢
  generalize carry _ = S0 at hos ⊢
  -- the shape of the (versionComment vc ++ (beginSections cx ++ ls ++ T))
  generalize hd : cx.d = d at *
  generalize ho' : cx.o = o at *
  rw [hsplit] at hsegs
  obtain ⟨lsPre, em1, lsSeg, em2, lsPost, hpre, hseg, hpost, rfl⟩ := addSegments_split cx pre z.1 post [] ls emitted hsegs
  have hallc : ∀ s ∈ pre ++ z.1 :: post, shouldEmit cx.o s.cond = true → s.allocSections ≠ [] := by
    rw [ho', ← hsplit]; exact hall
  unfold addSegment at hseg
  simp only [ho', hinc, Bool.not_true, Bool.false_eq_true, if_false] at hseg
  split at hseg
  · contradiction
  · rename_i cls em3 hcp
    split at hseg
    · contradiction
    · rename_i alloc halloc
      split at hseg
      · contradiction
      · rename_i noload hnoload
        injection hseg with hseg
        simp only [Prod.mk.injEq] at hseg
        obtain ⟨rfl, rfl⟩ := hseg
        have hcls : ∀ l ∈ cls, OuterLine l ∧ symOf l ≠ some romPos := by
          unfold classPart at hcp
          split at hcp
          · injection hcp with hcp; simp only [Prod.mk.injEq] at hcp; obtain ⟨rfl, _⟩ := hcp
            intro l hl; cases hl
          · split at hcp
            · contradiction
            · rename_i vcl _
              split at hcp
              · injection hcp with hcp; simp only [Prod.mk.injEq] at hcp; obtain ⟨rfl, _⟩ := hcp
                intro l hl; cases hl
              · injection hcp with hcp; simp only [Prod.mk.injEq] at hcp; obtain ⟨rfl, _⟩ := hcp
                exact classIntro_outer cx _ vcl
        generalize hs : d.settings.style.segVramStart z.1.name = s at *
        generalize hn : c!"." ++ z.1.name = n at *
        generalize hR : linkerSym (d.settings.style.segRomStart z.1.name) (.sym c!"__romPos") = romStart
        generalize hA : versionComment vc ++ (beginSections cx ++ (lsPre ++ (cls ++ (startAligns z.1 ++ [romStart])))) = A
        generalize hB : alloc ++ ([.blank] ++ (noload ++ ([.blank] ++ segTail cx z.1))) ++ (lsPost ++ T) = B
        have hshape : versionComment vc ++ (beginSections cx ++ (lsPre ++ (segmentLines cx z.1 cls alloc noload ++ lsPost)) ++ T)
            = A ++ Line.assign s (.addr n) false false true :: B := by
          have hd' : cx.d = d := hd
          rw [segmentLines_split, hd', hR, hs, hn, ← hA, ← hB]
          simp [List.append_assoc, linkerSym]
        rw [hshape] at hos hcnt hhdr ⊢
        have hsdot : s ≠ c!"." := by rw [← hs]; exact endsOk_ne_dot _ (segVramStart_ok _ _)
        have hsym : symOf (Line.assign s (.addr n) false false true) = some s := by simp [symOf, hsdot]
        rw [assignCount_append, assignCount_cons] at hcnt
        simp only [hsym, if_true] at hcnt
        rw [hdrCount_append, hdrCount_cons] at hhdr
        have hBh : 1 ≤ hdrCount n B := by
          rw [← hB, hdrCount_append, hdrCount_append, ← hn]
          have := writeSegment_header cx z.1 alloc halloc
          omega
        -- the assignment is reached outside `/DISCARD/`
        have hdisc : (execK objs { syms := S0 } A (Line.assign s (.addr n) false false true :: B ++ [])).inDiscard = false := by
          rw [← hA, execK_append, Slinky.C04.execK_quiet objs _ (Slinky.C04.versionComment_quiet vc), execK_append, execK_append]
          have hb : ∃ st1, st1 = execK objs { syms := S0 } (beginSections cx)
                (lsPre ++ (cls ++ (startAligns z.1 ++ [romStart])) ++ (Line.assign s (.addr n) false false true :: B ++ [])) ∧ Outside st1 ∧
              lookupLast Ld.romPos st1.syms = some (.num 0) := by
            refine ⟨_, rfl, ?_, ?_⟩
            · unfold beginSections
              cases cx.d.settings.hardcodedGpValue <;> simp [execK, step, setSym] <;> exact ⟨rfl, rfl⟩
            · unfold beginSections
              cases cx.d.settings.hardcodedGpValue <;> simp [execK, step, setSym, eval, lookupLast_snoc, lookupLast_snoc2, Ld.romPos]
          obtain ⟨st1, e1, o1, r1⟩ := hb
          rw [← e1]
          obtain ⟨_, st2, r2, e2, o2, _, _, _⟩ := segments_vram_end objs cx hsy pre [] lsPre em1 hpre
            (fun s hs => hallc s (List.mem_append_left _ hs)) st1 o1 0 r1
            (cls ++ (startAligns z.1 ++ [romStart]) ++ (Line.assign s (.addr n) false false true :: B ++ []))
          rw [← e2, execK_nd objs _ ?_ st2 _]
          · exact o2.nd
          · intro l hl
            simp only [List.mem_append, List.mem_cons, List.mem_nil_iff, or_false] at hl
            rcases hl with hl | hl | hl
            · exact outer_assign_or_blank (hcls l hl).1
            · exact startAligns_assign z.1 l hl
            · rw [hl, ← hR]; exact Or.inr ⟨_, _, _, _, _, rfl⟩
        exact addr_symbol_image objs S0 A B s n false false true hsdot (by omega) (by omega) (by omega) hdisc os hos
          g1

end Slinky.C03
