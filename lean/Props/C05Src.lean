/-
  C05, "spelled as documented for the selected `linker_symbols_style`" — tied to the source text.

  `Src.segment_rom_start` … `Src.vram_class_size` (lean/Src/Tables.lean) are written by
  tools/extract_tables.py from the `format!` strings of the *current*
  /repo/slinky/src/linker_symbols_style.rs on every run.  The theorems say that the model's 13
  naming functions are those, for every style and every name.  The one function that is
  modelled by hand, `convert_section_name_to_linker_format` (with `utils::capitalize`), is
  fingerprinted: its token text must be the one `Style.sectionName` was written from.
-/
import Src.Tables
import Props.C05
namespace Slinky.C05

theorem segRomStart_src (st : Style) (n : Str) : st.segRomStart n = Src.segment_rom_start st n := by cases st <;> rfl
theorem segRomEnd_src (st : Style) (n : Str) : st.segRomEnd n = Src.segment_rom_end st n := by cases st <;> rfl
theorem segRomSize_src (st : Style) (n : Str) : st.segRomSize n = Src.segment_rom_size st n := by cases st <;> rfl
theorem segVramStart_src (st : Style) (n : Str) : st.segVramStart n = Src.segment_vram_start st n := by cases st <;> rfl
theorem segVramEnd_src (st : Style) (n : Str) : st.segVramEnd n = Src.segment_vram_end st n := by cases st <;> rfl
theorem segVramSize_src (st : Style) (n : Str) : st.segVramSize n = Src.segment_vram_size st n := by cases st <;> rfl
theorem secStart_src (st : Style) (n sec : Str) : st.secStart n sec = Src.segment_section_start st n sec := by cases st <;> rfl
theorem secEnd_src (st : Style) (n sec : Str) : st.secEnd n sec = Src.segment_section_end st n sec := by cases st <;> rfl
theorem secSize_src (st : Style) (n sec : Str) : st.secSize n sec = Src.segment_section_size st n sec := by cases st <;> rfl
theorem linkerOffset_src (st : Style) (n : Str) : st.linkerOffset n = Src.linker_offset st n := by cases st <;> rfl
theorem classStart_src (st : Style) (n : Str) : st.classStart n = Src.vram_class_start st n := by cases st <;> rfl
theorem classEnd_src (st : Style) (n : Str) : st.classEnd n = Src.vram_class_end st n := by cases st <;> rfl
theorem classSize_src (st : Style) (n : Str) : st.classSize n = Src.vram_class_size st n := by cases st <;> rfl

/-- the source has these naming functions and no other (a new one would need a model). -/
theorem style_functions_src : Src.styleFunctions =
    ["segment_rom_start", "segment_rom_end", "segment_rom_size", "segment_vram_start", "segment_vram_end",
     "segment_vram_size", "segment_section_start", "segment_section_end", "segment_section_size", "linker_offset",
     "vram_class_start", "vram_class_end", "vram_class_size"] := by decide

/-- the hand-modelled section-name conversion still has the source text it was modelled from. -/
theorem sectionName_source_unchanged : Src.sectionNameSource = true ∧
    Src.capitalizeSource = "letmutchars=s.chars();matchchars.next(){None=>\"\".to_string(),Some(first)=>first.to_uppercase().to_string()+chars.as_str(),}" := by
  decide

end Slinky.C05
