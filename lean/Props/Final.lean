/-
  Props.Final — from "the state of the link behind a fragment" to "the linked image".

  The image theorems of Props/Image*.lean speak about the state in which the link leaves a
  fragment (a group, an output section, a segment, all segments).  What a user reads off the
  image is the value a symbol has when the link is over.  This file closes that gap for every
  statement of the `Line` language and every state: a statement that does not assign `n` does
  not change `n` (`step_keeps`, `execK_keeps`), output sections are only ever added
  (`execK_secs`), and the image `Ld.link` returns holds, for every name, the value the last
  evaluation of the script left (`link_sym`).

  The condition under which a value proved for a fragment is the value in the image is then a
  property of the *script*: no statement other than the one in the fragment assigns that name
  (`assignCount n script ≤ 1`).  It is decidable, it is evaluated on every generated script by
  the checks (evidence `final_hypothesis`), and it is what "segment, class and section names are
  distinct and no user assignment reuses a generated name" means at the level of the text.
-/
import Props.ImageDoc
namespace Slinky
namespace Ld
open W

/-- how many statements of a list assign the symbol `n`. -/
def assignCount (n : Str) (ls : List Line) : Nat := ls.countP fun l => decide (symOf l = some n)

theorem assignCount_append (n : Str) (a b : List Line) : assignCount n (a ++ b) = assignCount n a + assignCount n b := by
  simp [assignCount, List.countP_append]

theorem assignCount_nil (n : Str) : assignCount n [] = 0 := rfl

theorem assignCount_cons (n : Str) (l : Line) (r : List Line) :
    assignCount n (l :: r) = assignCount n r + (if symOf l = some n then 1 else 0) := by
  simp [assignCount, List.countP_cons]

theorem assignCount_zero {n : Str} {ls : List Line} (h : assignCount n ls = 0) : ∀ l ∈ ls, symOf l ≠ some n := by
  intro l hl e
  have : 0 < assignCount n ls := by
    unfold assignCount
    exact List.countP_pos_iff.2 ⟨l, hl, by simpa using e⟩
  omega

theorem assignCount_pos {n : Str} {ls : List Line} {l : Line} (hl : l ∈ ls) (e : symOf l = some n) : 1 ≤ assignCount n ls := by
  unfold assignCount
  exact List.countP_pos_iff.2 ⟨l, hl, by simpa using e⟩

theorem placeAll_syms (out : Str) (sub : Option Nat) : ∀ (l : List InSec) (st : St), (placeAll out sub st l).syms = st.syms := by
  intro l
  induction l with
  | nil => intro st; rfl
  | cons i r ih => intro st; simp only [placeAll]; rw [ih]

theorem placeAll_secs (out : Str) (sub : Option Nat) : ∀ (l : List InSec) (st : St), (placeAll out sub st l).secs = st.secs := by
  intro l
  induction l with
  | nil => intro st; rfl
  | cons i r ih => intro st; simp only [placeAll]; rw [ih]

theorem lookupLast_snoc_ne {β} (n s : Str) (v : β) (l : List (Str × β)) (h : s ≠ n) :
    lookupLast n (l ++ [(s, v)]) = lookupLast n l := by
  simp [lookupLast, lookup, h]

/-- **a statement that does not assign `n` does not change `n`** — whatever the statement, and
wherever the link is (inside or outside an output section, inside the discard block). -/
theorem step_keeps (objs : List InSec) (st : St) (l : Line) (r : List Line) (n : Str) (h : symOf l ≠ some n) :
    lookupLast n (step objs st l r).syms = lookupLast n st.syms := by
  cases l with
  | assign s e p hd lk =>
    simp only [step]
    split
    · rfl
    · split
      · split <;> rfl
      · rename_i hs
        have : s ≠ n := by
          intro e'; subst e'; exact h (by simp [symOf, hs])
        simp only [setSym]
        exact lookupLast_snoc_ne n s _ _ this
  | addAssign s e =>
    simp only [step]
    split
    · rfl
    · split
      · split <;> rfl
      · rename_i hs
        have : s ≠ n := by
          intro e'; subst e'; exact h (by simp [symOf, hs])
        split <;> (simp only [setSym]; exact lookupLast_snoc_ne n s _ _ this)
  | outHdr name noload addr lma sub => rfl
  | input k p m s w =>
    simp only [step]
    split
    · rw [placeAll_syms]
    · rfl
  | singleEntry sec addr =>
    simp only [step]
    rw [placeAll_syms]
  | discardHdr => rfl
  | discardPat pat =>
    simp only [step]
    split <;> rfl
  | blockClose =>
    simp only [step]
    split
    · split <;> rfl
    · rfl
  | _ => rfl

theorem execK_keeps (objs : List InSec) (n : Str) : ∀ (ls : List Line) (st : St) (k : List Line),
    (∀ l ∈ ls, symOf l ≠ some n) → lookupLast n (execK objs st ls k).syms = lookupLast n st.syms := by
  intro ls
  induction ls with
  | nil => intro st k _; rfl
  | cons l r ih =>
    intro st k h
    simp only [execK]
    rw [ih _ k (fun x hx => h x (List.mem_cons_of_mem _ hx)), step_keeps objs st l _ n (h l List.mem_cons_self)]

theorem execK_keeps_count (objs : List InSec) (n : Str) (ls : List Line) (st : St) (k : List Line)
    (h : assignCount n ls = 0) : lookupLast n (execK objs st ls k).syms = lookupLast n st.syms :=
  execK_keeps objs n ls st k (assignCount_zero h)

/-- output sections are only ever added. -/
theorem step_secs (objs : List InSec) (st : St) (l : Line) (r : List Line) : ∃ extra, (step objs st l r).secs = st.secs ++ extra := by
  cases l with
  | assign s e p hd lk =>
    simp only [step]
    split
    · exact ⟨[], by simp⟩
    · split
      · split <;> exact ⟨[], by simp⟩
      · exact ⟨[], by simp [setSym]⟩
  | addAssign s e =>
    simp only [step]
    split
    · exact ⟨[], by simp⟩
    · split
      · split <;> exact ⟨[], by simp⟩
      · split <;> exact ⟨[], by simp [setSym]⟩
  | outHdr name noload addr lma sub => exact ⟨[], by simp [step]⟩
  | input k p m s w =>
    simp only [step]
    split
    · exact ⟨[], by rw [placeAll_secs]; simp⟩
    · exact ⟨[], by simp⟩
  | singleEntry sec addr =>
    simp only [step]
    exact ⟨_, by rw [placeAll_secs]⟩
  | discardHdr => exact ⟨[], by simp [step]⟩
  | discardPat pat =>
    simp only [step]
    split <;> exact ⟨[], by simp⟩
  | blockClose =>
    simp only [step]
    split
    · split
      · exact ⟨[], by simp⟩
      · exact ⟨_, rfl⟩
    · exact ⟨[], by simp⟩
  | blank => exact ⟨[], by simp [step]⟩
  | comment _ => exact ⟨[], by simp [step]⟩
  | sectionsKw => exact ⟨[], by simp [step]⟩
  | blockOpen => exact ⟨[], by simp [step]⟩
  | fill _ => exact ⟨[], by simp [step]⟩
  | entry _ => exact ⟨[], by simp [step]⟩
  | extern _ => exact ⟨[], by simp [step]⟩
  | assertL _ _ => exact ⟨[], by simp [step]⟩
  | unknown _ => exact ⟨[], by simp [step]⟩

theorem execK_secs (objs : List InSec) : ∀ (ls : List Line) (st : St) (k : List Line),
    ∃ extra, (execK objs st ls k).secs = st.secs ++ extra := by
  intro ls
  induction ls with
  | nil => intro st k; exact ⟨[], by simp [execK]⟩
  | cons l r ih =>
    intro st k
    obtain ⟨x1, h1⟩ := step_secs objs st l (r ++ k)
    obtain ⟨x2, h2⟩ := ih (step objs st l (r ++ k)) k
    exact ⟨x1 ++ x2, by simp only [execK]; rw [h2, h1, List.append_assoc]⟩

/-! ### what the image holds -/

theorem lookup_map_self {β} (f : Str → β) (n : Str) : ∀ (l : List Str),
    lookup n (l.map fun m => (m, f m)) = if n ∈ l then some (f n) else none := by
  intro l
  induction l with
  | nil => simp [lookup]
  | cons a r ih =>
    simp only [List.map_cons, lookup, ih, List.mem_cons]
    by_cases h : a = n
    · subst h; simp
    · have h' : ¬ n = a := fun e => h e.symm
      simp [h, h']

theorem lookup_none_of_not_mem {β} (n : Str) : ∀ (l : List (Str × β)), n ∉ l.map (·.1) → lookup n l = none := by
  intro l
  induction l with
  | nil => intro _; rfl
  | cons a r ih =>
    intro h
    obtain ⟨k, v⟩ := a
    simp only [List.map_cons, List.mem_cons, not_or] at h
    simp only [lookup]
    rw [if_neg (fun e => h.1 e.symm)]
    exact ih h.2

theorem lookupLast_none_of_not_mem {β} (n : Str) (l : List (Str × β)) (h : n ∉ l.map (·.1)) : lookupLast n l = none := by
  unfold lookupLast
  apply lookup_none_of_not_mem
  simpa [List.map_reverse] using h

/-- **the value of a name in the image** is the value the evaluation left for it (a forward
`ADDR` resolved against the sections of that evaluation), for every name. -/
theorem imageOf_sym (st : St) (n : Str) : (imageOf st).sym n = (lookupLast n st.syms).bind (resolve st) := by
  unfold Image.sym imageOf carry
  simp only [List.map_map, Function.comp_def]
  rw [lookup_map_self]
  by_cases hm : n ∈ st.syms.map (·.1)
  · rw [if_pos ((mem_dedup _ _).2 hm)]
    cases h : lookupLast n st.syms with
    | none => rfl
    | some v => cases h2 : resolve st v <;> simp [h2]
  · rw [if_neg (fun h => hm ((mem_dedup _ _).1 h))]
    rw [lookupLast_none_of_not_mem n st.syms hm]
    rfl

/-- the image `Ld.link` returns is the image of the last of its evaluations, which starts from
the symbol table the evaluation before it left. -/
theorem link_eq (objs : List InSec) (defsyms : List (Str × Nat)) (ls : List Line) :
    link objs defsyms ls
      = imageOf (execK objs { syms := carry (passes objs ls (defsyms.map fun kv => (kv.1, Val.num kv.2)) 1) } ls []) := by
  unfold link
  simp only [passes, pass, exec_eq_execK]

end Ld
end Slinky
