/-
  C13, the text of the symbols header — tied to the source text (lean/Src/Formats.lean, regenerated from
  linker_writer.rs `export_symbol_header` and version.rs on every run).
-/
import Src.Formats
import Props.C13
namespace Slinky.C13

theorem version_src : (c!"/* " ++ versionText ++ c!" */\n\n" : Str)
    = fmt Src.lw__export_symbol_header_0 [.n Src.version_major, .n Src.version_minor, .n Src.version_patch] := by
  decide

/-- `export_symbol_header`, write by write (`writeln!` adds the line break of each declaration). -/
theorem header_text_src (vc : Bool) (ty : Str) (asArray : Bool) (syms : List Str) :
    headerText vc ty asArray syms
      = (if vc then fmt Src.lw__export_symbol_header_0 [.n Src.version_major, .n Src.version_minor, .n Src.version_patch]
         else [])
        ++ fmt Src.lw__export_symbol_header_2 []
        ++ (syms.map (fun s => fmt Src.lw__export_symbol_header_6
              [.s ty, .s s, .s (if asArray then fmt Src.lw__export_symbol_header_4 [] else fmt Src.lw__export_symbol_header_5 [])]
              ++ c!"\n")).flatten
        ++ fmt Src.lw__export_symbol_header_7 [] := by
  rw [← version_src]
  have h6 : (fun s : Str => fmt Src.lw__export_symbol_header_6
              [.s ty, .s s, .s (if asArray then fmt Src.lw__export_symbol_header_4 [] else fmt Src.lw__export_symbol_header_5 [])]
              ++ c!"\n")
      = (fun s => c!"extern " ++ ty ++ c!" " ++ s ++ (if asArray then c!"[]" else []) ++ c!";\n") := by
    funext s; cases asArray <;>
      simp [fmt, Src.lw__export_symbol_header_6, Src.lw__export_symbol_header_4, Src.lw__export_symbol_header_5]
  rw [h6]
  simp [headerText, fmt, Src.lw__export_symbol_header_2, Src.lw__export_symbol_header_7]

theorem counts_src : Src.lw__export_symbol_header_count = 9 := by decide

end Slinky.C13
