/-
  C17 in the image `Ld.link` returns: the value of `_gp` — for the whole ordinary script of a document and for the main
  script of partial mode. A segment's `gp_info` writes `_gp = . + <offset>` in front of the start symbol of the group of
  its section, behind the group's start alignments: in the image `_gp` is the value of that start symbol plus the offset
  (32-bit), when the script assigns `_gp` and that start symbol once (no `hardcoded_gp_value`, one `gp_info`).
  The proof is `C05.group_symbols_core` with `group_gp_image` at the group.
-/
import Props.C05Partial
import Props.C17
namespace Slinky.C17
open Slinky W Ld

/-- the group of the `gp_info` section assigns `_gp`. -/
theorem gp_assigned (cx : Ctx) (seg : Segment) (sec : Str) (emitted : List Line) (hsy : cx.emitSecSyms = true)
    (gp : GpInfo) (hgp : seg.gpInfo = some gp) (hem : shouldEmit cx.o gp.cond = true) (hsec : gp.sect = sec) :
    1 ≤ assignCount c!"_gp" (C05.groupOf cx seg sec emitted) := by
  unfold C05.groupOf
  rw [groupStart_eq cx seg sec hsy]
  have hgl : gpLine cx seg sec = [.assign c!"_gp" (.dotPlus (toHexI32 gp.offset)) gp.provide gp.hidden false] := by
    unfold gpLine; rw [hgp]; simp [hem, hsec]
  rw [hgl]
  exact assignCount_pos (l := .assign c!"_gp" (.dotPlus (toHexI32 gp.offset)) gp.provide gp.hidden false) (by simp) (by simp [symOf])

/-- `_gp` in the image, for any writer context and any statements behind the segments. -/
theorem gp_value_core (objs : List InSec) (cx : Ctx) (hsy : cx.emitSecSyms = true) (vc : Bool)
    (segs : List Segment) (ls : List Line) (emitted : List Str) (T : List Line)
    (hsegs : addSegments cx [] segs = .ok (ls, emitted))
    (hall : ∀ s ∈ segs, shouldEmit cx.o s.cond = true → s.allocSections ≠ [])
    (defsyms : List (Str × Nat))
    (pre post : List Segment) (seg : Segment) (hsplit : segs = pre ++ seg :: post)
    (hinc : shouldEmit cx.o seg.cond = true)
    (nl : Bool) (s1 : List Str) (sec : Str) (s2 : List Str)
    (hs : (if nl then seg.noloadSections else seg.allocSections) = s1 ++ sec :: s2)
    (gp : GpInfo) (hgp : seg.gpInfo = some gp) (hgem : shouldEmit cx.o gp.cond = true) (hgsec : gp.sect = sec)
    (off : Nat) (hoff : parseHex (toHexI32 gp.offset) = some off)
    (hc1 : assignCount (cx.d.settings.style.secStart seg.name sec) (versionComment vc ++ (beginSections cx ++ ls ++ T)) ≤ 1)
    (hc2 : assignCount c!"_gp" (versionComment vc ++ (beginSections cx ++ ls ++ T)) ≤ 1) :
    ∃ s : Nat,
      (link objs defsyms (versionComment vc ++ (beginSections cx ++ ls ++ T))).sym (cx.d.settings.style.secStart seg.name sec) = some s ∧
      (link objs defsyms (versionComment vc ++ (beginSections cx ++ ls ++ T))).sym c!"_gp" = some ((s + off) % M32) := by
  generalize hd : cx.d = d at *
  generalize ho' : cx.o = o at *
  rw [hsplit] at hsegs
  obtain ⟨lsPre, em1, lsSeg, em2, lsPost, hpre, hseg, hpost, rfl⟩ := C03.addSegments_split cx pre seg post [] ls emitted hsegs
  have hallc : ∀ s ∈ pre ++ seg :: post, shouldEmit cx.o s.cond = true → s.allocSections ≠ [] := by
    rw [ho', ← hsplit]; exact hall
  unfold addSegment at hseg
  simp only [ho', hinc, Bool.not_true, Bool.false_eq_true, if_false] at hseg
  split at hseg
  · contradiction
  · rename_i cls em3 hcp
    split at hseg
    · contradiction
    · rename_i alloc halloc
      split at hseg
      · contradiction
      · rename_i noload hnoload
        injection hseg with hseg
        simp only [Prod.mk.injEq] at hseg
        obtain ⟨rfl, rfl⟩ := hseg
        have hcls : ∀ l ∈ cls, OuterLine l ∧ symOf l ≠ some romPos := by
          unfold classPart at hcp
          split at hcp
          · injection hcp with hcp; simp only [Prod.mk.injEq] at hcp; obtain ⟨rfl, _⟩ := hcp
            intro l hl; cases hl
          · split at hcp
            · contradiction
            · rename_i vcl _
              split at hcp
              · injection hcp with hcp; simp only [Prod.mk.injEq] at hcp; obtain ⟨rfl, _⟩ := hcp
                intro l hl; cases hl
              · injection hcp with hcp; simp only [Prod.mk.injEq] at hcp; obtain ⟨rfl, _⟩ := hcp
                exact classIntro_outer cx _ vcl
        obtain ⟨A, emittedG, B, hlines, hem, hreach⟩ := C05.group_in_segment objs cx seg cls alloc noload hcls halloc hnoload nl s1 sec s2 hs
        obtain ⟨a1, _, _⟩ := C05.group_assigns cx seg sec emittedG hsy
        rw [hd] at a1
        have a2 := gp_assigned cx seg sec emittedG hsy gp hgp (by rw [ho']; exact hgem) hgsec
        generalize hG : C05.groupOf cx seg sec emittedG = G at *
        have hform : versionComment vc ++ (beginSections cx ++ (lsPre ++ (segmentLines cx seg cls alloc noload ++ lsPost)) ++ T)
            = versionComment vc ++ (beginSections cx ++ (lsPre ++ (A ++ (G ++ (B ++ (lsPost ++ T)))))) := by
          rw [hlines]; simp [List.append_assoc]
        rw [hform] at hc1 hc2 ⊢
        have hb0 : ∀ n, assignCount n (versionComment vc) = 0 := fun n => Slinky.C04.assignCount_quiet n _ (Slinky.C04.versionComment_quiet vc)
        simp only [assignCount_append, hb0] at hc1 hc2
        rw [link_eq]
        generalize carry _ = S0
        rw [execK_append, Slinky.C04.execK_quiet objs _ (Slinky.C04.versionComment_quiet vc)]
        rw [execK_append, execK_append, execK_append, execK_append]
        have hb : ∃ st1, st1 = execK objs { syms := S0 } (beginSections cx) (lsPre ++ (A ++ (G ++ (B ++ (lsPost ++ T)))) ++ []) ∧ Outside st1 ∧
            lookupLast Ld.romPos st1.syms = some (.num 0) := by
          refine ⟨_, rfl, ?_, ?_⟩
          · unfold beginSections
            cases cx.d.settings.hardcodedGpValue <;> simp [execK, step, setSym] <;> exact ⟨rfl, rfl⟩
          · unfold beginSections
            cases cx.d.settings.hardcodedGpValue <;> simp [execK, step, setSym, eval, lookupLast_snoc, lookupLast_snoc2, Ld.romPos]
        obtain ⟨st1, e1, o1, r1⟩ := hb
        rw [← e1]
        obtain ⟨_, st2, r2, e2, o2, hr2, _, _⟩ := C03.segments_vram_end objs cx hsy pre [] lsPre em1 hpre
          (fun s hs => hallc s (List.mem_append_left _ hs)) st1 o1 0 r1 (A ++ (G ++ (B ++ (lsPost ++ T))) ++ [])
        rw [← e2]
        obtain ⟨c, hin⟩ := hreach st2 o2 r2 hr2 (G ++ (B ++ (lsPost ++ T)) ++ [])
        generalize execK objs st2 A _ = st3 at *
        rw [← hG] at *
        obtain ⟨sv, ev, new, st4, e4, f1, _, _, _, _, _, g1, _, _, _⟩ :=
          group_image objs cx seg sec hsy emittedG hem c st3 hin (B ++ (lsPost ++ T) ++ [])
        have hgpv := group_gp_image objs cx seg sec hsy emittedG hem gp hgp (by rw [ho']; exact hgem) hgsec off hoff c st3 hin (B ++ (lsPost ++ T) ++ [])
        simp only at hgpv
        rw [← f1] at hgpv
        unfold C05.groupOf
        rw [← e4] at hgpv ⊢
        rw [hd] at g1
        refine ⟨sv, ?_, ?_⟩
        · rw [imageOf_sym, execK_keeps_count objs _ (B ++ (lsPost ++ T)) st4 [] (by simp only [assignCount_append]; omega), g1]; rfl
        · rw [imageOf_sym, execK_keeps_count objs _ (B ++ (lsPost ++ T)) st4 [] (by simp only [assignCount_append]; omega), hgpv]; rfl

/-- **C17 in the linked image, for the whole ordinary script of a document: the value of `_gp`.** -/
theorem final_gp_value (objs : List InSec) (d : Document) (o : Opts) (vc : Bool) (script : List Line)
    (hmulti : d.settings.singleSegmentMode = false)
    (h : generateNormal d o vc = .ok script)
    (hall : ∀ s ∈ d.segments, shouldEmit o s.cond = true → s.allocSections ≠ [])
    (defsyms : List (Str × Nat))
    (pre post : List Segment) (seg : Segment) (hsplit : d.segments = pre ++ seg :: post)
    (hinc : shouldEmit o seg.cond = true)
    (nl : Bool) (s1 : List Str) (sec : Str) (s2 : List Str)
    (hs : (if nl then seg.noloadSections else seg.allocSections) = s1 ++ sec :: s2)
    (gp : GpInfo) (hgp : seg.gpInfo = some gp) (hgem : shouldEmit o gp.cond = true) (hgsec : gp.sect = sec)
    (off : Nat) (hoff : parseHex (toHexI32 gp.offset) = some off)
    (hc1 : assignCount (d.settings.style.secStart seg.name sec) script ≤ 1)
    (hc2 : assignCount c!"_gp" script ≤ 1) :
    ∃ s : Nat,
      (link objs defsyms script).sym (d.settings.style.secStart seg.name sec) = some s ∧
      (link objs defsyms script).sym c!"_gp" = some ((s + off) % M32) := by
  unfold generateNormal at h
  split at h
  · contradiction
  · rename_i body hbody
    injection h with h
    subst h
    unfold addAllSegments at hbody
    simp only [hmulti, Bool.false_eq_true, if_false] at hbody
    split at hbody
    · contradiction
    · rename_i ls emitted hsegs
      injection hbody with hbody
      subst hbody
      have hform : versionComment vc ++ (beginSections { d := d, o := o } ++ ls ++ endSections { d := d, o := o } emitted) ++ topLevel d o
          = versionComment vc ++ (beginSections { d := d, o := o } ++ ls ++ (endSections { d := d, o := o } emitted ++ topLevel d o)) := by
        simp [List.append_assoc]
      rw [hform] at hc1 hc2 ⊢
      exact gp_value_core objs { d := d, o := o } rfl vc d.segments ls emitted _ hsegs hall defsyms pre post seg hsplit hinc
        nl s1 sec s2 hs gp hgp hgem hgsec off hoff hc1 hc2

/-- the same for the main script of partial mode. -/
theorem final_gp_value_partial (objs : List InSec) (d : Document) (o : Opts) (vc : Bool) (out : PartialOut)
    (h : generatePartial d o vc = .ok out)
    (hall : ∀ s ∈ d.segments, shouldEmit o s.cond = true → s.allocSections ≠ [])
    (defsyms : List (Str × Nat)) (folder : Str) (hfolder : d.settings.partialBuildSegmentsFolder = some folder)
    (pre post : List Segment) (seg : Segment) (hsplit : C03.partialSegs d o folder = pre ++ seg :: post)
    (nl : Bool) (s1 : List Str) (sec : Str) (s2 : List Str)
    (hs : (if nl then seg.noloadSections else seg.allocSections) = s1 ++ sec :: s2)
    (gp : GpInfo) (hgp : seg.gpInfo = some gp) (hgem : shouldEmit o gp.cond = true) (hgsec : gp.sect = sec)
    (off : Nat) (hoff : parseHex (toHexI32 gp.offset) = some off)
    (hc1 : assignCount (d.settings.style.secStart seg.name sec) out.main ≤ 1)
    (hc2 : assignCount c!"_gp" out.main ≤ 1) :
    ∃ s : Nat,
      (link objs defsyms out.main).sym (d.settings.style.secStart seg.name sec) = some s ∧
      (link objs defsyms out.main).sym c!"_gp" = some ((s + off) % M32) := by
  obtain ⟨folder', ls, emitted, hf', hsegs, hmain⟩ := C03.partial_main_shape d o vc out h
  rw [hfolder] at hf'; injection hf' with hf'; subst hf'
  rw [hmain] at hc1 hc2 ⊢
  have hinc : shouldEmit o seg.cond = true :=
    C03.partialSegs_emitted d o folder seg (hsplit ▸ List.mem_append_right _ List.mem_cons_self)
  exact gp_value_core objs (C03.partialCx d o) rfl vc _ ls emitted _ hsegs (C03.partialSegs_alloc d o folder hall) defsyms
    pre post seg hsplit hinc nl s1 sec s2 hs gp hgp hgem hgsec off hoff hc1 hc2

/-! ### the hypotheses are met, and the conclusion is about real numbers -/

def exDocG : Document :=
  { segments := [
      { name := c!"boot", fixedVram := some 0x80000000, allocSections := [c!".text", c!".data"], noloadSections := [c!".bss"],
        gpInfo := some { sect := c!".data", offset := 0x7FF0, provide := false, hidden := false, cond := {} }, files := [C04.exF c!"a.o"] }] }

/-- `_gp` is the start of the `.data` group of `boot` (behind the 20 bytes of `.text`) plus 0x7FF0; both symbols are
assigned once. -/
example : (match generateNormal exDocG C04.exOpts false with
    | .ok script =>
      decide (assignCount c!"_gp" script = 1) && decide (assignCount c!"boot_DATA_START" script = 1)
      && decide ((link C04.exObjs [] script).sym c!"boot_DATA_START" = some 0x80000014)
      && decide ((link C04.exObjs [] script).sym c!"_gp" = some 0x80008004)
    | .error _ => false) = true := by decide +kernel

end Slinky.C17
