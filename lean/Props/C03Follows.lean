/-
  C03 in the image `Ld.link` returns: a segment whose address is a *symbol* — `follows_segment`
  (the VRAM end symbol of the followed segment), `fixed_symbol`, `vram_class` (the class start
  symbol) — has its output section recorded at the value that symbol holds when the header is
  reached; for `follows_segment` naming an emitted segment listed *earlier* that value is the
  value of the followed segment's VRAM end symbol in the image: the segment starts where the
  other one ends, for the whole ordinary script of a document.

  `segment_sym_addr` is the step for one segment (from `segment_image`), `addSegments_split`
  cuts the fold over the segments at the segment in question, `segments_vram_end`
  (Props/C03Vram.lean) says what the followed segment left in its VRAM end symbol, and
  `Ld.execK_keeps_count` carries it to the header and to the end of the script because the
  script assigns the name once.
-/
import Props.C03Vram
import Props.C03Final
namespace Slinky.C03
open Slinky W Ld

/-- the fold of `add_segment` cut at one segment. -/
theorem addSegments_split (cx : Ctx) : ∀ (pre : List Segment) (seg : Segment) (post : List Segment) (em : List Str)
    (ls : List Line) (em' : List Str) (_ : addSegments cx em (pre ++ seg :: post) = .ok (ls, em')),
    ∃ lsPre em1 lsSeg em2 lsPost,
      addSegments cx em pre = .ok (lsPre, em1) ∧ addSegment cx em1 seg = .ok (lsSeg, em2)
      ∧ addSegments cx em2 post = .ok (lsPost, em') ∧ ls = lsPre ++ (lsSeg ++ lsPost) := by
  intro pre
  induction pre with
  | nil =>
    intro seg post em ls em' h
    simp only [List.nil_append, addSegments] at h
    split at h
    · contradiction
    · rename_i a em1 hadd
      split at h
      · contradiction
      · rename_i b em2 hrest
        injection h with h
        simp only [Prod.mk.injEq] at h
        obtain ⟨rfl, rfl⟩ := h
        exact ⟨[], em, a, em1, b, rfl, hadd, hrest, rfl⟩
  | cons p pre ih =>
    intro seg post em ls em' h
    simp only [List.cons_append, addSegments] at h
    split at h
    · contradiction
    · rename_i a em1 hadd
      split at h
      · contradiction
      · rename_i b em2 hrest
        injection h with h
        simp only [Prod.mk.injEq] at h
        obtain ⟨rfl, rfl⟩ := h
        obtain ⟨lsPre, e1, lsSeg, e2, lsPost, h1, h2, h3, h4⟩ := ih seg post em1 b em2 hrest
        refine ⟨a ++ lsPre, e1, lsSeg, e2, lsPost, ?_, h2, h3, ?_⟩
        · simp only [addSegments, hadd, h1]
        · rw [h4]; simp [List.append_assoc]

/-- **one segment whose address is a symbol**: when its own statements do not assign the name and the
name holds a number when the segment is reached, the allocatable output section is recorded at that
number. -/
theorem segment_sym_addr (objs : List InSec) (cx : Ctx) (hsy : cx.emitSecSyms = true) (em : List Str) (seg : Segment)
    (lsSeg : List Line) (em' : List Str) (hadd : addSegment cx em seg = .ok (lsSeg, em'))
    (hinc : shouldEmit cx.o seg.cond = true) (hne : seg.allocSections ≠ [])
    (st : St) (ho : Outside st) (r : Nat) (hr : lookupLast romPos st.syms = some (.num r)) (k : List Line)
    (a : Str) (ha : segAddr cx seg = some a) (hdot : a ≠ c!".") (hrom : a ≠ romPos)
    (x : Nat) (hx : lookupLast a st.syms = some (.num x)) (hcnt : assignCount a lsSeg = 0) :
    ∃ os ∈ (execK objs st lsSeg k).secs, os.name = c!"." ++ seg.name ∧ os.addr = x ∧ os.noload = false := by
  unfold addSegment at hadd
  simp only [hinc, Bool.not_true, Bool.false_eq_true, if_false] at hadd
  split at hadd
  · contradiction
  · rename_i cls em3 hcp
    split at hadd
    · contradiction
    · rename_i alloc halloc
      split at hadd
      · contradiction
      · rename_i noload hnoload
        injection hadd with hadd
        simp only [Prod.mk.injEq] at hadd
        obtain ⟨rfl, rfl⟩ := hadd
        have hcls : ∀ l ∈ cls, OuterLine l ∧ symOf l ≠ some romPos := by
          unfold classPart at hcp
          split at hcp
          · injection hcp with hcp; simp only [Prod.mk.injEq] at hcp; obtain ⟨rfl, _⟩ := hcp
            intro l hl; cases hl
          · split at hcp
            · contradiction
            · rename_i vc _
              split at hcp
              · injection hcp with hcp; simp only [Prod.mk.injEq] at hcp; obtain ⟨rfl, _⟩ := hcp
                intro l hl; cases hl
              · injection hcp with hcp; simp only [Prod.mk.injEq] at hcp; obtain ⟨rfl, _⟩ := hcp
                exact classIntro_outer cx _ vc
        obtain ⟨aS, aE, al, dN, st1, lmaV, e1, o1, _, haddr, _, _, _, _, r1, _, _, hsec1, _⟩ :=
          segment_image objs cx seg cls alloc noload hcls halloc hnoload hne hsy st ho r hr k
        rw [← e1]
        have hnone := assignCount_zero hcnt
        obtain ⟨st₁, _, _, hkeep, hv⟩ := haddr a ha
        obtain ⟨restA, hA⟩ := writeSegment_kindStart cx seg seg.allocSections false alloc halloc
        have hmem : ∀ l, l ∈ cls ∨ l ∈ alloc ∨
            l = linkerSym (cx.d.settings.style.segRomStart seg.name) (.sym c!"__romPos") ∨
            l = linkerSym (cx.d.settings.style.segVramStart seg.name) (.addr (c!"." ++ seg.name)) →
            l ∈ segmentLines cx seg cls alloc noload := by
          intro l hl
          rw [segmentLines_eq]
          simp only [List.mem_append, List.mem_cons, List.mem_nil_iff, or_false]
          rcases hl with hl | hl | hl | hl
          · exact Or.inl (Or.inl (Or.inl (Or.inl (Or.inl (Or.inl (Or.inl hl))))))
          · exact Or.inl (Or.inl (Or.inl (Or.inl (Or.inr hl))))
          · exact Or.inl (Or.inl (Or.inl (Or.inl (Or.inl (Or.inr (Or.inl hl))))))
          · exact Or.inl (Or.inl (Or.inl (Or.inl (Or.inl (Or.inr (Or.inr hl))))))
        have hk := hkeep a hrom
          (fun l hl => hnone l (hmem l (Or.inl hl)))
          (fun e => hnone _ (hmem _ (Or.inr (Or.inr (Or.inl rfl))))
            (by rw [e]; exact Slinky.C04.symOf_linkerSym _ _ (endsOk_ne_dot _ (segRomStart_ok _ _))))
          (fun e => hnone _ (hmem _ (Or.inr (Or.inr (Or.inr rfl))))
            (by rw [e]; exact Slinky.C04.symOf_linkerSym _ _ (endsOk_ne_dot _ (segVramStart_ok _ _))))
          (fun l hl => hnone l (hmem l (Or.inr (Or.inl (by rw [hA]; exact List.mem_append_left _ hl)))))
        have hop : operand st₁ a = some x := by
          unfold operand
          simp only [hdot, if_false, hk, hx, resolve]
        rw [hop] at hv
        simp only [Option.getD_some] at hv
        exact ⟨_, hsec1, rfl, hv, rfl⟩

/-- an excluded or emitted segment leaves the link outside every output section with a numeric ROM counter. -/
theorem addSegment_outside (objs : List InSec) (cx : Ctx) (hsy : cx.emitSecSyms = true) (em : List Str) (seg : Segment)
    (lsSeg : List Line) (em' : List Str) (hadd : addSegment cx em seg = .ok (lsSeg, em'))
    (hne : shouldEmit cx.o seg.cond = true → seg.allocSections ≠ [])
    (st : St) (ho : Outside st) (r : Nat) (hr : lookupLast romPos st.syms = some (.num r)) (k : List Line) :
    Outside (execK objs st lsSeg k) ∧ ∃ r', lookupLast romPos (execK objs st lsSeg k).syms = some (.num r') := by
  obtain ⟨zs, st', r', e, o, hr', _, _⟩ := segments_vram_end objs cx hsy [seg] em lsSeg em'
    (by simp only [addSegments, hadd]; simp)
    (by intro s hs; rw [List.mem_singleton.1 hs]; exact hne) st ho r hr k
  rw [← e]
  exact ⟨o, r', hr'⟩

/-- **C03 in the linked image, for the whole ordinary script of a document: `follows_segment`.**
For every document in multi-segment mode whose emitted segments have an allocatable section, every
option set, object table and `--defsym` table: an emitted segment without `fixed_vram` and `fixed_symbol`
whose `follows_segment` names an emitted segment `f` listed before it has, in the image `Ld.link`
computes for the generated script, its output section `.<segment>` recorded at the value of `f`'s VRAM
end symbol in that image — when the script assigns that symbol once. -/
theorem final_follows_segment (objs : List InSec) (d : Document) (o : Opts) (vc : Bool) (script : List Line)
    (hmulti : d.settings.singleSegmentMode = false)
    (h : generateNormal d o vc = .ok script)
    (hall : ∀ s ∈ d.segments, shouldEmit o s.cond = true → s.allocSections ≠ [])
    (defsyms : List (Str × Nat))
    (pre post : List Segment) (seg f : Segment) (hsplit : d.segments = pre ++ seg :: post)
    (hf : f ∈ pre) (hfinc : shouldEmit o f.cond = true) (hinc : shouldEmit o seg.cond = true)
    (hfv : seg.fixedVram = none) (hfs : seg.fixedSymbol = none) (hfol : seg.followsSegment = some f.name)
    (hcnt : assignCount (d.settings.style.segVramEnd f.name) script ≤ 1) :
    ∃ os ∈ (link objs defsyms script).secs, os.name = c!"." ++ seg.name ∧ os.noload = false ∧
      (link objs defsyms script).sym (d.settings.style.segVramEnd f.name) = some os.addr := by
  unfold generateNormal at h
  split at h
  · contradiction
  · rename_i body hbody
    injection h with h
    subst h
    unfold addAllSegments at hbody
    simp only [hmulti, Bool.false_eq_true, if_false] at hbody
    split at hbody
    · contradiction
    · rename_i ls emitted hsegs
      injection hbody with hbody
      subst hbody
      generalize hcx : ({ d := d, o := o } : Ctx) = cx at *
      have hd : cx.d = d := by rw [← hcx]
      have ho' : cx.o = o := by rw [← hcx]
      have hsy : cx.emitSecSyms = true := by rw [← hcx]
      rw [hsplit] at hsegs
      obtain ⟨lsPre, em1, lsSeg, em2, lsPost, hpre, hseg, hpost, rfl⟩ := addSegments_split cx pre seg post [] ls emitted hsegs
      generalize hT : endSections cx emitted ++ topLevel d o = T
      have hform : versionComment vc ++ (beginSections cx ++ (lsPre ++ (lsSeg ++ lsPost)) ++ endSections cx emitted) ++ topLevel d o
          = versionComment vc ++ (beginSections cx ++ (lsPre ++ (lsSeg ++ (lsPost ++ T)))) := by
        rw [← hT]; simp [List.append_assoc]
      rw [hform] at hcnt ⊢
      rw [link_eq]
      generalize carry _ = S0
      rw [execK_append, Slinky.C04.execK_quiet objs _ (Slinky.C04.versionComment_quiet vc)]
      rw [execK_append, execK_append, execK_append]
      have hb : ∃ st1, st1 = execK objs { syms := S0 } (beginSections cx) (lsPre ++ (lsSeg ++ (lsPost ++ T)) ++ []) ∧ Outside st1 ∧
          lookupLast Ld.romPos st1.syms = some (.num 0) := by
        refine ⟨_, rfl, ?_, ?_⟩
        · unfold beginSections
          cases cx.d.settings.hardcodedGpValue <;> simp [execK, step, setSym] <;> exact ⟨rfl, rfl⟩
        · unfold beginSections
          cases cx.d.settings.hardcodedGpValue <;> simp [execK, step, setSym, eval, lookupLast_snoc, lookupLast_snoc2, Ld.romPos]
      obtain ⟨st1, e1, o1, r1⟩ := hb
      rw [← e1]
      have hallc : ∀ s ∈ pre ++ seg :: post, shouldEmit cx.o s.cond = true → s.allocSections ≠ [] := by
        rw [ho', ← hsplit]; exact hall
      -- the followed segment, behind the segments in front
      obtain ⟨zs, st2, r2, e2, o2, hr2, hz, hfacts⟩ := segments_vram_end objs cx hsy pre [] lsPre em1 hpre
        (fun s hs => hallc s (List.mem_append_left _ hs)) st1 o1 0 r1 (lsSeg ++ (lsPost ++ T) ++ [])
      rw [← e2]
      have hfm : f ∈ zs.map (·.1) := by
        rw [hz]; exact List.mem_filter.2 ⟨hf, by rw [ho']; simpa using hfinc⟩
      obtain ⟨z, hzm, rfl⟩ := List.mem_map.1 hfm
      obtain ⟨_, _, _, f4, f5⟩ := hfacts z hzm
      rw [hd] at f4 f5
      generalize hname : d.settings.style.segVramEnd z.1.name = a at *
      have hb0 : assignCount a (versionComment vc) = 0 := Slinky.C04.assignCount_quiet a _ (Slinky.C04.versionComment_quiet vc)
      simp only [assignCount_append, hb0] at hcnt
      have hx := f4 (by omega)
      -- the segment itself
      have hsa : segAddr cx seg = some a := by
        unfold segAddr; simp [hfv, hfs, hfol, hd, hname]
      have hadot : a ≠ c!"." := by rw [← hname]; exact endsOk_ne_dot _ (segVramEnd_ok _ _)
      have harom : a ≠ romPos := by rw [← hname]; exact ne_romPos (segVramEnd_ok _ _)
      obtain ⟨os, hos, g1, g2, g3⟩ := segment_sym_addr objs cx hsy em1 seg lsSeg em2 hseg (by rw [ho']; exact hinc)
        (hallc seg (List.mem_append_right _ List.mem_cons_self) (by rw [ho']; exact hinc))
        st2 o2 r2 hr2 (lsPost ++ T ++ []) a hsa hadot harom _ hx (by omega)
      obtain ⟨extra, hxs⟩ := execK_secs objs (lsPost ++ T) (execK objs st2 lsSeg (lsPost ++ T ++ [])) []
      refine ⟨os, ?_, g1, g3, ?_⟩
      · simp only [imageOf]; rw [hxs]; exact List.mem_append_left _ hos
      · rw [imageOf_sym, execK_keeps_count objs a (lsPost ++ T) _ [] (by rw [assignCount_append]; omega),
          execK_keeps_count objs a lsSeg st2 _ (by omega), hx, g2]
        rfl

/-! ### `fixed_symbol`: a symbol given to the linker with `--defsym` -/

/-- a number an evaluation leaves for a name is what the next evaluation starts with. -/
theorem carry_num (st : St) (n : Str) (x : Nat) (h : lookupLast n st.syms = some (.num x)) :
    lookupLast n (carry st) = some (.num x) := by
  have hm : n ∈ st.syms.map (·.1) := by
    apply Classical.byContradiction
    intro hc
    rw [lookupLast_none_of_not_mem n st.syms hc] at h
    cases h
  unfold carry lookupLast
  rw [← List.map_reverse, lookup_map_self]
  rw [if_pos (by rw [List.mem_reverse]; exact (mem_dedup _ _).2 hm)]
  have : lookup n st.syms.reverse = some (.num x) := h
  simp only [lookupLast, this]
  rfl

/-- a `--defsym` the script never assigns holds its number at the end of every evaluation. -/
theorem passes_num (objs : List InSec) (ls : List Line) (ds : List (Str × Val)) (n : Str) (x : Nat)
    (hd : lookupLast n ds = some (.num x)) (hc : assignCount n ls = 0) :
    ∀ k, lookupLast n (passes objs ls ds k).syms = some (.num x) := by
  intro k
  induction k with
  | zero =>
    simp only [passes, pass, exec_eq_execK]
    rw [execK_keeps_count objs n ls _ [] hc]; exact hd
  | succ k ih =>
    simp only [passes, pass, exec_eq_execK]
    rw [execK_keeps_count objs n ls _ [] hc]; exact carry_num _ n x ih

/-- **C03 in the linked image, for the whole ordinary script of a document: `fixed_symbol`.**
An emitted segment without `fixed_vram` whose `fixed_symbol` is a name the linker is given with
`--defsym <name>=<x>` and that the script itself never assigns has its output section `.<segment>`
recorded at `x` in the image `Ld.link` computes for the generated script (the name is not `.` and not
the ROM counter). -/
theorem final_fixed_symbol (objs : List InSec) (d : Document) (o : Opts) (vc : Bool) (script : List Line)
    (hmulti : d.settings.singleSegmentMode = false)
    (h : generateNormal d o vc = .ok script)
    (hall : ∀ s ∈ d.segments, shouldEmit o s.cond = true → s.allocSections ≠ [])
    (defsyms : List (Str × Nat))
    (pre post : List Segment) (seg : Segment) (hsplit : d.segments = pre ++ seg :: post)
    (hinc : shouldEmit o seg.cond = true)
    (hfv : seg.fixedVram = none) (a : Str) (hfs : seg.fixedSymbol = some a) (hadot : a ≠ c!".") (harom : a ≠ romPos)
    (x : Nat) (hds : lookupLast a (defsyms.map fun kv => (kv.1, Val.num kv.2)) = some (.num x))
    (hcnt : assignCount a script = 0) :
    ∃ os ∈ (link objs defsyms script).secs, os.name = c!"." ++ seg.name ∧ os.noload = false ∧ os.addr = x := by
  have hstart : lookupLast a (carry (passes objs script (defsyms.map fun kv => (kv.1, Val.num kv.2)) 1)) = some (.num x) :=
    carry_num _ a x (passes_num objs script _ a x hds hcnt 1)
  rw [link_eq]
  generalize carry _ = S0 at hstart ⊢
  unfold generateNormal at h
  split at h
  · contradiction
  · rename_i body hbody
    injection h with h
    subst h
    unfold addAllSegments at hbody
    simp only [hmulti, Bool.false_eq_true, if_false] at hbody
    split at hbody
    · contradiction
    · rename_i ls emitted hsegs
      injection hbody with hbody
      subst hbody
      generalize hcx : ({ d := d, o := o } : Ctx) = cx at *
      have hd : cx.d = d := by rw [← hcx]
      have ho' : cx.o = o := by rw [← hcx]
      have hsy : cx.emitSecSyms = true := by rw [← hcx]
      rw [hsplit] at hsegs
      obtain ⟨lsPre, em1, lsSeg, em2, lsPost, hpre, hseg, hpost, rfl⟩ := addSegments_split cx pre seg post [] ls emitted hsegs
      generalize hT : endSections cx emitted ++ topLevel d o = T
      have hform : versionComment vc ++ (beginSections cx ++ (lsPre ++ (lsSeg ++ lsPost)) ++ endSections cx emitted) ++ topLevel d o
          = versionComment vc ++ (beginSections cx ++ (lsPre ++ (lsSeg ++ (lsPost ++ T)))) := by
        rw [← hT]; simp [List.append_assoc]
      rw [hform] at hcnt ⊢
      simp only [assignCount_append] at hcnt
      rw [execK_append, Slinky.C04.execK_quiet objs _ (Slinky.C04.versionComment_quiet vc)]
      rw [execK_append, execK_append, execK_append]
      have hb : ∃ st1, st1 = execK objs { syms := S0 } (beginSections cx) (lsPre ++ (lsSeg ++ (lsPost ++ T)) ++ []) ∧ Outside st1 ∧
          lookupLast Ld.romPos st1.syms = some (.num 0) := by
        refine ⟨_, rfl, ?_, ?_⟩
        · unfold beginSections
          cases cx.d.settings.hardcodedGpValue <;> simp [execK, step, setSym] <;> exact ⟨rfl, rfl⟩
        · unfold beginSections
          cases cx.d.settings.hardcodedGpValue <;> simp [execK, step, setSym, eval, lookupLast_snoc, lookupLast_snoc2, Ld.romPos]
      obtain ⟨st1, e1, o1, r1⟩ := hb
      have hx1 : lookupLast a st1.syms = some (.num x) := by
        rw [e1, execK_keeps_count objs a _ _ _ (by omega)]; exact hstart
      rw [← e1]
      have hallc : ∀ s ∈ pre ++ seg :: post, shouldEmit cx.o s.cond = true → s.allocSections ≠ [] := by
        rw [ho', ← hsplit]; exact hall
      obtain ⟨zs, st2, r2, e2, o2, hr2, _, _⟩ := segments_vram_end objs cx hsy pre [] lsPre em1 hpre
        (fun s hs => hallc s (List.mem_append_left _ hs)) st1 o1 0 r1 (lsSeg ++ (lsPost ++ T) ++ [])
      have hx2 : lookupLast a st2.syms = some (.num x) := by
        rw [e2, execK_keeps_count objs a _ _ _ (by omega)]; exact hx1
      rw [← e2]
      have hsa : segAddr cx seg = some a := by
        unfold segAddr; simp [hfv, hfs]
      obtain ⟨os, hos, g1, g2, g3⟩ := segment_sym_addr objs cx hsy em1 seg lsSeg em2 hseg (by rw [ho']; exact hinc)
        (hallc seg (List.mem_append_right _ List.mem_cons_self) (by rw [ho']; exact hinc))
        st2 o2 r2 hr2 (lsPost ++ T ++ []) a hsa hadot harom x hx2 (by omega)
      obtain ⟨extra, hxs⟩ := execK_secs objs (lsPost ++ T) (execK objs st2 lsSeg (lsPost ++ T ++ [])) []
      exact ⟨os, by simp only [imageOf]; rw [hxs]; exact List.mem_append_left _ hos, g1, g3, g2⟩

/-! ### the hypotheses are met, and the conclusion is about real numbers -/

def exDocF : Document :=
  { segments := [
      { name := c!"boot", fixedVram := some 0x80000000, allocSections := [c!".text", c!".data"], noloadSections := [c!".bss"],
        segmentEndAlign := some 16, files := [C04.exF c!"a.o"] },
      { name := c!"main", followsSegment := some c!"boot", allocSections := [c!".text", c!".data"], noloadSections := [c!".bss"],
        files := [C04.exF c!"b.o"] }] }

/-- `main` follows `boot`: the script assigns `boot_VRAM_END` once, and in the image `.main` is recorded at
its value, 0x80000000 + 20 bytes of `.text`, rounded up to the 8 of `.bss`, + 100 bytes of noload data, rounded up to 16. -/
example : (match generateNormal exDocF C04.exOpts false with
    | .ok script =>
      decide (assignCount c!"boot_VRAM_END" script = 1)
      && decide ((link C04.exObjs [] script).sym c!"boot_VRAM_END" = some 0x80000080)
      && (link C04.exObjs [] script).secs.any (fun os => os.name = c!".main" && os.addr = 0x80000080 && !os.noload)
    | .error _ => false) = true := by decide +kernel

def exDocS : Document :=
  { segments := [
      { name := c!"boot", fixedVram := some 0x80000000, allocSections := [c!".text", c!".data"], noloadSections := [c!".bss"],
        files := [C04.exF c!"a.o"] },
      { name := c!"ovl", fixedSymbol := some c!"ovl_base", allocSections := [c!".text", c!".data"], noloadSections := [c!".bss"],
        files := [C04.exF c!"b.o"] }] }

/-- `ovl` is placed at the symbol `ovl_base`, which the script never assigns and the linker is given as 0x80400000. -/
example : (match generateNormal exDocS C04.exOpts false with
    | .ok script =>
      decide (assignCount c!"ovl_base" script = 0)
      && (link C04.exObjs [(c!"ovl_base", 0x80400000)] script).secs.any (fun os => os.name = c!".ovl" && os.addr = 0x80400000 && !os.noload)
    | .error _ => false) = true := by decide +kernel

end Slinky.C03
