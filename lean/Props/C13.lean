/-
  C13 — the symbols header declares exactly the generated linker symbols.
-/
import Props.Lemmas
import Props.ImageSyms
namespace Slinky.C13
open Slinky

/-- the header text is `headerText` of the two header settings and the writer's recorded
linker symbols, in ordinary and in partial mode (main writer). -/
theorem header_of_symbols (d : Document) (o : Opts) (m : Mode) (vc : Bool) (out : Outputs)
    (h : generate d o m vc = .ok out) :
    out.header = headerText vc d.settings.symbolsHeaderType d.settings.symbolsHeaderAsArray out.symbols
    ∧ out.symbols = linkerSymbols out.lines := by
  unfold generate at h
  cases m with
  | normal =>
    simp only at h
    split at h
    · contradiction
    · split at h
      · contradiction
      · injection h with h; subst h; exact ⟨rfl, rfl⟩
  | partialLink =>
    simp only at h
    split at h
    · contradiction
    · split at h
      · contradiction
      · injection h with h; subst h; exact ⟨rfl, rfl⟩

/-- each recorded symbol is declared once: the list has no repetition, and a name is recorded
iff the script contains an unconditional plain assignment (no `PROVIDE`, no `HIDDEN`) written
through `write_linker_symbol` — hence every declared name is defined by the script. -/
theorem declared_once_and_defined (ls : List Line) :
    (linkerSymbols ls).Nodup ∧
    ∀ s, s ∈ linkerSymbols ls ↔ ∃ e, Line.assign s e false false true ∈ ls := by
  refine ⟨nodup_dedup _, ?_⟩
  intro s
  unfold linkerSymbols
  rw [mem_dedup]
  simp only [List.mem_filterMap]
  constructor
  · rintro ⟨l, hl, hs⟩
    cases l with
    | assign s' e p hd lk =>
      cases p <;> cases hd <;> cases lk <;> simp [Line.linkerSym?] at hs
      subst hs
      exact ⟨e, hl⟩
    | _ => simp [Line.linkerSym?] at hs
  · rintro ⟨e, hl⟩
    exact ⟨_, hl, rfl⟩

theorem not_linker (s : Str) (e : Expr) (p h : Bool) : (Line.assign s e p h false).linkerSym? = none := by
  cases p <;> cases h <;> rfl

/-- user symbol assignments, `ENTRY`, `EXTERN` and `ASSERT` lines never enter the header. -/
theorem toplevel_not_declared (d : Document) (o : Opts) :
    ∀ l ∈ topLevel d o, l.linkerSym? = none := by
  intro l hl
  unfold topLevel at hl
  simp only [List.mem_append] at hl
  rcases hl with ((hl | hl) | hl) | hl
  · split at hl <;> simp at hl
    rcases hl with rfl | rfl <;> rfl
  · split at hl
    · simp at hl
    · simp only [List.mem_cons, List.mem_map, List.mem_filter] at hl
      rcases hl with rfl | ⟨a, _, rfl⟩
      · rfl
      · exact not_linker _ _ _ _
  · split at hl
    · simp at hl
    · simp only [List.mem_cons, List.mem_flatten, List.mem_map, List.mem_filter] at hl
      rcases hl with rfl | ⟨x, ⟨a, _, rfl⟩, hx⟩
      · rfl
      · simp at hx; rcases hx with rfl | rfl <;> rfl
  · split at hl
    · simp at hl
    · simp only [List.mem_cons, List.mem_map, List.mem_filter] at hl
      rcases hl with rfl | ⟨a, _, rfl⟩ <;> rfl

/-- neither `_gp` (hardcoded or from `gp_info`) nor the helper `__romPos` is declared. -/
theorem gp_and_rompos_not_declared (cx : Ctx) (seg : Segment) (sec : Str) :
    (∀ l ∈ gpLine cx seg sec, l.linkerSym? = none) ∧ (∀ l ∈ beginSections cx, l.linkerSym? = none) := by
  constructor
  · intro l hl
    unfold gpLine at hl
    split at hl
    · simp at hl
    · split at hl
      · simp at hl; subst hl; exact not_linker _ _ _ _
      · simp at hl
  · intro l hl
    unfold beginSections at hl
    simp only [List.mem_append, List.mem_cons, List.mem_nil_iff, or_false] at hl
    rcases hl with ((rfl | rfl | rfl) | hl) | rfl
    · rfl
    · rfl
    · rfl
    · split at hl <;> simp at hl
      subst hl; rfl
    · rfl


/-! ### in the linked image (the linker semantics `Slinkyv.Ld`) -/

open Ld in
/-- **C13, image clause**: every name the header declares (a symbol recorded through
`write_linker_symbol` in the part `A` of the script in front of the `/DISCARD/` block — which
`C18.tail` shows to be the last block) is in the symbol table of the image, for every object
table and whatever follows `A`: an assignment outside `/DISCARD/` always defines its symbol
and nothing removes one. -/
theorem image_declared_are_defined (objs : List InSec) (A B : List Line) (st : St) (hd : st.inDiscard = false)
    (hA : ∀ l ∈ A, l ≠ .discardHdr) :
    ∀ s ∈ linkerSymbols A, s ≠ c!"." → s ∈ names (exec objs st (A ++ B)) := by
  intro s hs hne
  obtain ⟨e, he⟩ := (declared_once_and_defined A).2 s |>.1 hs
  exact assigned_is_defined objs A B st hd hA s e false false true hne he

end Slinky.C13
