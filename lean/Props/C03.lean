import Props.Lemmas
namespace Slinky.C03
theorem placeholder : True := trivial
end Slinky.C03
