/-
  C03 — each segment starts at the VRAM address the document requests.
-/
import Props.Writer
import Props.ImageDoc
namespace Slinky.C03
open Slinky W

/-- **the address request of a segment**, in this priority: the `fixed_vram` literal, the
`fixed_symbol` text, the VRAM end symbol of `follows_segment`, the start symbol of its vram
class, or no address at all (the linker then continues at the current location). -/
theorem header_address (cx : Ctx) (seg : Segment) :
    segAddr cx seg =
      match seg.fixedVram, seg.fixedSymbol, seg.followsSegment, seg.vramClass with
      | some v, _, _, _ => some (c!"0x" ++ toHex8 v)
      | none, some s, _, _ => some s
      | none, none, some f, _ => some (cx.d.settings.style.segVramEnd f)
      | none, none, none, some c => some (cx.d.settings.style.classStart c)
      | none, none, none, none => none := by
  unfold segAddr
  cases seg.fixedVram <;> cases seg.fixedSymbol <;> cases seg.followsSegment <;> cases seg.vramClass <;> rfl

/-- for every *parsed* segment at most one of the four address fields is set, so the priority
above never has to choose. -/
theorem address_fields_exclusive (st : Settings) (s : SegmentS) (seg : Segment)
    (h : segmentRest st s = .ok seg) :
    atMostOne [seg.fixedVram.isSome, seg.fixedSymbol.isSome, seg.followsSegment.isSome, seg.vramClass.isSome] = true := by
  unfold segmentRest segmentTail at h
  peel h
  all_goals first
    | contradiction
    | injection h with h
      subst h
      simp_all

/-- **shape of the two output sections of a segment.** The allocatable part is
`.name [<address request>] : AT(<ROM start symbol>) [SUBALIGN(n)]`, the noload part is
`.name.noload (NOLOAD) : [SUBALIGN(n)]` without any address — it simply follows. -/
theorem section_headers (cx : Ctx) (seg : Segment) :
    segmentStart cx seg false = kindStart cx seg false ++
        [.outHdr (c!"." ++ seg.name) false (segAddr cx seg) (some (cx.d.settings.style.segRomStart seg.name)) seg.subalign,
         .blockOpen] ∧
    segmentStart cx seg true = kindStart cx seg true ++
        [.outHdr (c!"." ++ seg.name ++ c!".noload") true none none seg.subalign, .blockOpen] := by
  constructor <;> rfl

/-- **the statements around the two parts.** For an emitted segment `add_segment` writes, in
this order: the class prologue (if it opens a class), the start alignment of `__romPos` and of
`.`, `ROM_START = __romPos`, `<seg>_VRAM = ADDR(.<seg>)` — the start symbol is the address at
which the linker places the segment, whatever it is — the allocatable part, the noload part,
`__romPos += SIZEOF(.<seg>)`, the end alignment of `__romPos` and of `.`, then
`<seg>_VRAM_END = .` — the location after the noload part, rounded up — and the sizes. -/
theorem segment_statements (cx : Ctx) (seg : Segment) (cls alloc noload : List Line) :
    segmentLines cx seg cls alloc noload =
      cls
      ++ (match seg.segmentStartAlign with
          | some a => [alignSymbol c!"__romPos" a, alignSymbol c!"." a] | none => [])
      ++ [linkerSym (cx.d.settings.style.segRomStart seg.name) (.sym c!"__romPos"),
          linkerSym (cx.d.settings.style.segVramStart seg.name) (.addr (c!"." ++ seg.name))]
      ++ alloc ++ [.blank] ++ noload ++ [.blank]
      ++ [.addAssign c!"__romPos" (.sizeofE (c!"." ++ seg.name))]
      ++ (match seg.segmentEndAlign with
          | some a => [alignSymbol c!"__romPos" a, alignSymbol c!"." a] | none => [])
      ++ [linkerSym (cx.d.settings.style.segVramEnd seg.name) .dot,
          linkerSym (cx.d.settings.style.segVramSize seg.name)
            (.absSub (cx.d.settings.style.segVramEnd seg.name) (cx.d.settings.style.segVramStart seg.name)),
          linkerSym (cx.d.settings.style.segRomEnd seg.name) (.sym c!"__romPos"),
          linkerSym (cx.d.settings.style.segRomSize seg.name)
            (.absSub (cx.d.settings.style.segRomEnd seg.name) (cx.d.settings.style.segRomStart seg.name))]
      ++ (match seg.vramClass with
          | some cname => [.blank, maxSelf (cx.d.settings.style.classEnd cname) (cx.d.settings.style.segVramEnd seg.name)]
          | none => [])
      ++ [.blank] := by
  cases h1 : seg.segmentStartAlign <;> cases h2 : seg.segmentEndAlign <;> cases h3 : seg.vramClass <;>
    simp [segmentLines, symEndSize, h1, h2, h3]

/-- single-segment mode honours `fixed_vram` as the initial location and nothing else: the
script opens with `. = 0x<fixed_vram>;` iff the field is set, and the sections then follow in
list order without any address. -/
theorem single_segment_start (cx : Ctx) (seg : Segment) (ls : List Line) (h : addSingleSegment cx seg = .ok ls) :
    ∃ alloc noload, writeSingleSegment cx seg seg.allocSections false = .ok alloc ∧
      writeSingleSegment cx seg seg.noloadSections true = .ok noload ∧
      ls = [.sectionsKw, .blockOpen]
        ++ (if cx.emitSecSyms then
              match cx.d.settings.hardcodedGpValue with
              | some v => [.assign c!"_gp" (.hex8 v) false false false, .blank] | none => []
            else [])
        ++ (match seg.fixedVram with
            | some v => [.assign c!"." (.hex8 v) false false false, .blank] | none => [])
        ++ alloc ++ [.blank] ++ noload ++ [.blank] ++ endSections cx [] := by
  unfold addSingleSegment at h
  split at h
  · contradiction
  · rename_i alloc ha
    split at h
    · contradiction
    · rename_i noload hn
      injection h with h
      exact ⟨alloc, noload, ha, hn, h.symm⟩


/-! ### in the linked image (the linker semantics `Slinkyv.Ld`) -/

open Ld in
/-- **C03, image clause for the allocatable part**: the output section `.<segment>` opens at
the value of the address expression the header carries (`fixed_vram` literal, `fixed_symbol`,
the followed segment's end symbol, the class start symbol — `header_address`), or, without
one, at the location counter rounded up to the alignment `al ≥ 1` its contents require; it is
recorded with exactly that address and the size `end − start`. -/
theorem image_segment_start (objs : List InSec) (cx : Ctx) (seg : Segment) (secs : List Str)
    (ls : List Line) (h : writeSegment cx seg secs false = .ok ls) (st : St) (ho : Outside st) (k : List Line) :
    ∃ (start end_ al : Nat) (st' : St), st' = execK objs st ls k ∧ 1 ≤ al ∧ start ≤ end_ ∧
      (∀ a, segAddr cx seg = some a → ∃ st₁ : St, st₁.dot = st.dot ∧ st₁.secs = st.secs ∧
        (∀ n, (∀ l ∈ kindStart cx seg false, symOf l ≠ some n) → lookupLast n st₁.syms = lookupLast n st.syms) ∧
        start = (operand st₁ a).getD st.dot) ∧
      (segAddr cx seg = none → start = Ld.alignUp st.dot al) ∧
      ((st'.dot = end_ ∧ ∃ lmaV, st'.secs = st.secs ++ [⟨c!"." ++ seg.name, start, end_ - start, lmaV, false, al⟩]) ∨
       (end_ = start ∧ st'.dot = st.dot ∧ st'.secs = st.secs)) := by
  obtain ⟨start, end_, al, new, st', name, addr, h0, hn, ha, h1, h2, h3, h4, _, _, _, _, h9⟩ := section_image objs cx seg secs false ls h st ho k
  simp only [Bool.false_eq_true, if_false] at hn ha
  subst hn ha
  exact ⟨start, end_, al, st', h0, h1, h4, h2, h3, h9⟩

open Ld in
/-- **C03, image clause for the noload part**: `.<segment>.noload` opens at the location
counter (which is where the allocatable part and its symbols left it) rounded up to the
alignment of its contents — it follows the allocatable part. -/
theorem image_noload_follows (objs : List InSec) (cx : Ctx) (seg : Segment) (secs : List Str)
    (ls : List Line) (h : writeSegment cx seg secs true = .ok ls) (st : St) (ho : Outside st) (k : List Line) :
    ∃ (start al : Nat), 1 ≤ al ∧ start = Ld.alignUp st.dot al ∧ st.dot ≤ start ∧
      ∀ p ∈ (execK objs st ls k).placed, p ∉ st.placed → start ≤ p.addr := by
  obtain ⟨start, end_, al, new, st', name, addr, h0, hn, ha, h1, _, h3, _, _, h8, h9, _, _⟩ := section_image objs cx seg secs true ls h st ho k
  simp only [if_true] at ha
  refine ⟨start, al, h1, h3 ha, ?_, ?_⟩
  · rw [h3 ha]; exact le_alignUp _ _
  · intro p hp hnp
    rw [← h0, h8] at hp
    rcases List.mem_append.1 hp with hp | hp
    · exact absurd hp hnp
    · exact (chainOk_mem _ _ _ _ h9 p hp).1


open Ld in
/-- **C03 in the linked image, for one emitted segment** (with an allocatable section): from
any state of the link between output sections, the segment's allocatable output section is
recorded at `aS`, where `aS` is the value of the requested address expression, or — without a
request — the location counter (which the previous segment left at its VRAM end) rounded up to
the segment start alignment and then to the alignment `al` of the segment's contents; the
noload part lies behind the allocatable part (`aE ≤ dN`); and the VRAM end symbol holds the
location counter behind the noload part rounded up to the segment end alignment, which is also
where the next segment starts from. -/
theorem image_segment_vram (objs : List InSec) (cx : Ctx) (seg : Segment) (cls alloc noload : List Line)
    (hcls : ∀ l ∈ cls, OuterLine l ∧ symOf l ≠ some Ld.romPos)
    (ha : writeSegment cx seg seg.allocSections false = .ok alloc)
    (hn : writeSegment cx seg seg.noloadSections true = .ok noload)
    (hne : seg.allocSections ≠ []) (hsy : cx.emitSecSyms = true)
    (st : St) (ho : Outside st) (r : Nat) (hr : lookupLast Ld.romPos st.syms = some (.num r)) (k : List Line) :
    ∃ (aS aE al dN : Nat) (st' : St) (lmaV : Option Nat),
      st' = execK objs st (segmentLines cx seg cls alloc noload) k ∧ 1 ≤ al ∧
      (∀ a, segAddr cx seg = some a → ∃ st₁ : St, st₁.dot = alignO seg.segmentStartAlign st.dot ∧ st₁.secs = st.secs ∧
          (∀ n, n ≠ Ld.romPos → (∀ l ∈ cls, symOf l ≠ some n) → n ≠ cx.d.settings.style.segRomStart seg.name →
            n ≠ cx.d.settings.style.segVramStart seg.name → (∀ l ∈ kindStart cx seg false, symOf l ≠ some n) →
            lookupLast n st₁.syms = lookupLast n st.syms) ∧
          aS = (operand st₁ a).getD (alignO seg.segmentStartAlign st.dot)) ∧
      (segAddr cx seg = none → aS = Ld.alignUp (alignO seg.segmentStartAlign st.dot) al) ∧
      aS ≤ aE ∧ aE ≤ dN ∧
      st'.dot = alignO seg.segmentEndAlign dN ∧
      lookupLast (cx.d.settings.style.segVramEnd seg.name) st'.syms = some (.num st'.dot) ∧
      (⟨c!"." ++ seg.name, aS, aE - aS, lmaV, false, al⟩ : OutSec) ∈ st'.secs := by
  obtain ⟨aS, aE, al, dN, st', lmaV, h1, _, h3, h4, h5, h6, h7, h8, _, _, h11, h12, _⟩ :=
    segment_image objs cx seg cls alloc noload hcls ha hn hne hsy st ho r hr k
  exact ⟨aS, aE, al, dN, st', lmaV, h1, h3, h4, h5, h6, h7, h8, h11, h12⟩

end Slinky.C03
