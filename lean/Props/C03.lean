/-
  C03 — each segment starts at the VRAM address the document requests.
-/
import Props.Writer
namespace Slinky.C03
open Slinky W

/-- **the address request of a segment**, in this priority: the `fixed_vram` literal, the
`fixed_symbol` text, the VRAM end symbol of `follows_segment`, the start symbol of its vram
class, or no address at all (the linker then continues at the current location). -/
theorem header_address (cx : Ctx) (seg : Segment) :
    segAddr cx seg =
      match seg.fixedVram, seg.fixedSymbol, seg.followsSegment, seg.vramClass with
      | some v, _, _, _ => some (c!"0x" ++ toHex8 v)
      | none, some s, _, _ => some s
      | none, none, some f, _ => some (cx.d.settings.style.segVramEnd f)
      | none, none, none, some c => some (cx.d.settings.style.classStart c)
      | none, none, none, none => none := by
  unfold segAddr
  cases seg.fixedVram <;> cases seg.fixedSymbol <;> cases seg.followsSegment <;> cases seg.vramClass <;> rfl

/-- for every *parsed* segment at most one of the four address fields is set, so the priority
above never has to choose. -/
theorem address_fields_exclusive (st : Settings) (s : SegmentS) (seg : Segment)
    (h : segmentRest st s = .ok seg) :
    atMostOne [seg.fixedVram.isSome, seg.fixedSymbol.isSome, seg.followsSegment.isSome, seg.vramClass.isSome] = true := by
  unfold segmentRest segmentTail at h
  peel h
  all_goals first
    | contradiction
    | injection h with h
      subst h
      simp_all

/-- **shape of the two output sections of a segment.** The allocatable part is
`.name [<address request>] : AT(<ROM start symbol>) [SUBALIGN(n)]`, the noload part is
`.name.noload (NOLOAD) : [SUBALIGN(n)]` without any address — it simply follows. -/
theorem section_headers (cx : Ctx) (seg : Segment) :
    segmentStart cx seg false = kindStart cx seg false ++
        [.outHdr (c!"." ++ seg.name) false (segAddr cx seg) (some (cx.d.settings.style.segRomStart seg.name)) seg.subalign,
         .blockOpen] ∧
    segmentStart cx seg true = kindStart cx seg true ++
        [.outHdr (c!"." ++ seg.name ++ c!".noload") true none none seg.subalign, .blockOpen] := by
  constructor <;> rfl

/-- **the statements around the two parts.** For an emitted segment `add_segment` writes, in
this order: the class prologue (if it opens a class), the start alignment of `__romPos` and of
`.`, `ROM_START = __romPos`, `<seg>_VRAM = ADDR(.<seg>)` — the start symbol is the address at
which the linker places the segment, whatever it is — the allocatable part, the noload part,
`__romPos += SIZEOF(.<seg>)`, the end alignment of `__romPos` and of `.`, then
`<seg>_VRAM_END = .` — the location after the noload part, rounded up — and the sizes. -/
theorem segment_statements (cx : Ctx) (seg : Segment) (cls alloc noload : List Line) :
    segmentLines cx seg cls alloc noload =
      cls
      ++ (match seg.segmentStartAlign with
          | some a => [alignSymbol c!"__romPos" a, alignSymbol c!"." a] | none => [])
      ++ [linkerSym (cx.d.settings.style.segRomStart seg.name) (.sym c!"__romPos"),
          linkerSym (cx.d.settings.style.segVramStart seg.name) (.addr (c!"." ++ seg.name))]
      ++ alloc ++ [.blank] ++ noload ++ [.blank]
      ++ [.addAssign c!"__romPos" (.sizeofE (c!"." ++ seg.name))]
      ++ (match seg.segmentEndAlign with
          | some a => [alignSymbol c!"__romPos" a, alignSymbol c!"." a] | none => [])
      ++ [linkerSym (cx.d.settings.style.segVramEnd seg.name) .dot,
          linkerSym (cx.d.settings.style.segVramSize seg.name)
            (.absSub (cx.d.settings.style.segVramEnd seg.name) (cx.d.settings.style.segVramStart seg.name)),
          linkerSym (cx.d.settings.style.segRomEnd seg.name) (.sym c!"__romPos"),
          linkerSym (cx.d.settings.style.segRomSize seg.name)
            (.absSub (cx.d.settings.style.segRomEnd seg.name) (cx.d.settings.style.segRomStart seg.name))]
      ++ (match seg.vramClass with
          | some cname => [.blank, maxSelf (cx.d.settings.style.classEnd cname) (cx.d.settings.style.segVramEnd seg.name)]
          | none => [])
      ++ [.blank] := by
  cases h1 : seg.segmentStartAlign <;> cases h2 : seg.segmentEndAlign <;> cases h3 : seg.vramClass <;>
    simp [segmentLines, symEndSize, h1, h2, h3]

/-- single-segment mode honours `fixed_vram` as the initial location and nothing else: the
script opens with `. = 0x<fixed_vram>;` iff the field is set, and the sections then follow in
list order without any address. -/
theorem single_segment_start (cx : Ctx) (seg : Segment) (ls : List Line) (h : addSingleSegment cx seg = .ok ls) :
    ∃ alloc noload, writeSingleSegment cx seg seg.allocSections false = .ok alloc ∧
      writeSingleSegment cx seg seg.noloadSections true = .ok noload ∧
      ls = [.sectionsKw, .blockOpen]
        ++ (if cx.emitSecSyms then
              match cx.d.settings.hardcodedGpValue with
              | some v => [.assign c!"_gp" (.hex8 v) false false false, .blank] | none => []
            else [])
        ++ (match seg.fixedVram with
            | some v => [.assign c!"." (.hex8 v) false false false, .blank] | none => [])
        ++ alloc ++ [.blank] ++ noload ++ [.blank] ++ endSections cx [] := by
  unfold addSingleSegment at h
  split at h
  · contradiction
  · rename_i alloc ha
    split at h
    · contradiction
    · rename_i noload hn
      injection h with h
      exact ⟨alloc, noload, ha, hn, h.symm⟩

end Slinky.C03
