/-
  C16, the kind of a file entry without `kind` — tied to the source text. `Src.kindByExtension` and the three
  default kinds (lean/Src/Logic.lean) are the arms of `FileKind::from_path` in /repo's *current* file_kind.rs,
  written by tools/extract_logic.py on every run.
-/
import Src.Logic
import Props.C16
namespace Slinky.C16

theorem kindFromPath_src (p : Str) :
    kindFromPath p = (match extension p with
      | none => Src.kindNoExtension
      | some e => (lookup e Src.kindByExtension).getD Src.kindOtherExtension) := by
  unfold kindFromPath
  cases extension p with
  | none => rfl
  | some e =>
    simp only [Src.kindByExtension, Src.kindOtherExtension, lookup]
    by_cases h1 : c!"o" = e
    · subst h1; simp
    · by_cases h2 : c!"a" = e
      · subst h2; simp
      · have h2' : ¬ e = c!"a" := fun h => h2 h.symm
        simp [h1, h2, h2']

/-- an extension that is not valid UTF-8 cannot occur in a document (YAML text is UTF-8); the source answers it like
a missing extension. -/
theorem kind_not_utf8_src : Src.kindNotUtf8 = Src.kindNoExtension := by decide

end Slinky.C16
