/-
  C05, the statements that define the symbols — tied to the source text (lean/Src/Formats.lean,
  regenerated from script_buffer.rs / linker_writer.rs on every run): a linker symbol is written as
  `<name> = <value>;`, sizes as `ABSOLUTE(<end> - <start>)`, starts and ends as `.`, and the names of the
  two parts of a segment are `<segment>_alloc` / `<segment>_noload`.
-/
import Src.Formats
import Props.C05
namespace Slinky.C05

theorem linker_symbol_src (s : Str) (e : Expr) :
    (linkerSym s e).renderBody = fmt Src.sb__write_symbol_assignment_3 [.s s, .s e.render] := by
  simp [linkerSym, Line.renderBody, fmt, Src.sb__write_symbol_assignment_3]

theorem size_value_src (end_ start : Str) :
    (Expr.absSub end_ start).render = fmt Src.lw__write_sym_end_size_0 [.s end_, .s start] := by
  simp [Expr.render, fmt, Src.lw__write_sym_end_size_0]

/-- the value `.` of every start / end symbol of a part and of a section group. -/
theorem dot_value_src : Expr.dot.render = fmt Src.lw__write_sections_kind_start_3 []
    ∧ Expr.dot.render = fmt Src.lw__write_sections_kind_end_3 []
    ∧ Expr.dot.render = fmt Src.lw__write_section_symbol_start_4 []
    ∧ Expr.dot.render = fmt Src.lw__write_section_symbol_end_2 [] := by decide

/-- `format!("{}_{}", segment.name, if noload { "noload" } else { "alloc" })`. -/
theorem kind_name_src (seg : Segment) (noload : Bool) :
    kindName seg noload
      = fmt Src.lw__write_sections_kind_start_2
          [.s seg.name, .s (if noload then fmt Src.lw__write_sections_kind_start_0 [] else fmt Src.lw__write_sections_kind_start_1 [])]
    ∧ Src.lw__write_sections_kind_start_0 = Src.lw__write_sections_kind_end_0
    ∧ Src.lw__write_sections_kind_start_1 = Src.lw__write_sections_kind_end_1
    ∧ Src.lw__write_sections_kind_start_2 = Src.lw__write_sections_kind_end_2 := by
  refine ⟨?_, by decide, by decide, by decide⟩
  cases noload <;>
    simp [kindName, fmt, Src.lw__write_sections_kind_start_0, Src.lw__write_sections_kind_start_1,
      Src.lw__write_sections_kind_start_2]

theorem counts_src : Src.lw__write_sections_kind_start_count = 4 ∧ Src.lw__write_sections_kind_end_count = 4
    ∧ Src.lw__write_section_symbol_start_count = 5 ∧ Src.lw__write_section_symbol_end_count = 3
    ∧ Src.lw__write_sym_end_size_count = 1 ∧ Src.sb__write_symbol_assignment_count = 4
    ∧ Src.sb__write_linker_symbol_count = 0 := by decide

end Slinky.C05
