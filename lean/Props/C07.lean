/-
  C07 — emitted paths are base/dir/group dirs/path with every {key} replaced, or error.
-/
import Props.Lemmas
namespace Slinky.C07
open Slinky

mutual
  /-- the character scanner of `escape_path` computes the declarative expansion. -/
  theorem scanLit_spec (o : Opts) (s : Str) : scanLit o s = expandToks o (tokLit s) := by
    cases s with
    | nil => simp [scanLit, tokLit, expandToks]
    | cons c cs =>
      unfold scanLit tokLit
      by_cases h : c = '{'
      · simp only [h, if_true]; exact scanKey_spec o [] cs
      · simp only [h, if_false, expandToks]
        rw [scanLit_spec o cs]
        cases expandToks o (tokLit cs) <;> rfl
  theorem scanKey_spec (o : Opts) (key s : Str) : scanKey o key s = expandToks o (tokKey key s) := by
    cases s with
    | nil => simp [scanKey, tokKey, expandToks]
    | cons c cs =>
      unfold scanKey tokKey
      by_cases h : c = '}'
      · simp only [h, if_true, expandToks]
        rw [scanLit_spec o cs]
        cases optGet o key with
        | none => rfl
        | some v => cases expandToks o (tokLit cs) <;> rfl
      · simp only [h, if_false]; exact scanKey_spec o (key ++ [c]) cs
end

mutual
  /-- tokenisation loses nothing: the sources of the tokens concatenate to the component. -/
  theorem source_tokLit (s : Str) : ((tokLit s).map Tok.source).flatten = s := by
    cases s with
    | nil => simp [tokLit]
    | cons c cs =>
      unfold tokLit
      by_cases h : c = '{'
      · simp only [h, if_true]
        have := source_tokKey [] cs
        simpa using this
      · simp [h, Tok.source, source_tokLit cs]
  theorem source_tokKey (key s : Str) : ((tokKey key s).map Tok.source).flatten = '{' :: key ++ s := by
    cases s with
    | nil => simp [tokKey, Tok.source]
    | cons c cs =>
      unfold tokKey
      by_cases h : c = '}'
      · simp [h, Tok.source, source_tokLit cs]
      · simp only [h, if_false]
        have := source_tokKey (key ++ [c]) cs
        simpa using this
end


/-- what a token contributes to the expanded text. -/
def Tok.value (o : Opts) : Tok → Str
  | .lit c => [c]
  | .key k => (optGet o k).getD []
  | .unterminated t => '{' :: t

/-- **never partially expanded, never truncated**: a successful expansion is the
concatenation, in order, of every literal character, the value of every key and every
unterminated tail — nothing else and nothing less. -/
theorem expand_value (o : Opts) (toks : List Tok) (r : Str) (h : expandToks o toks = .ok r) :
    r = (toks.map (Tok.value o)).flatten := by
  induction toks generalizing r with
  | nil => simp [expandToks] at h; simp [h]
  | cons t ts ih =>
    cases t with
    | lit c =>
      simp only [expandToks] at h
      cases hr : expandToks o ts with
      | error e => simp [hr] at h
      | ok r' => simp [hr] at h; subst h; simp [Tok.value, ih r' hr]
    | key k =>
      simp only [expandToks] at h
      cases hk : optGet o k with
      | none => simp [hk] at h
      | some v =>
        cases hr : expandToks o ts with
        | error e => simp [hk, hr] at h
        | ok r' => simp [hk, hr] at h; subst h; simp [Tok.value, hk, ih r' hr]
    | unterminated t =>
      simp only [expandToks] at h
      cases hr : expandToks o ts with
      | error e => simp [hr] at h
      | ok r' => simp [hr] at h; subst h; simp [Tok.value, ih r' hr]

/-- **error iff a referenced key is missing**: the expansion fails exactly when some `{key}`
of the component names an option that was not provided, and then reports such a key; in
particular a path whose keys were all provided is never rejected. -/
theorem expand_error_iff (o : Opts) (toks : List Tok) :
    (∃ k, expandToks o toks = .error k) ↔ ∃ k, Tok.key k ∈ toks ∧ optGet o k = none := by
  induction toks with
  | nil => simp [expandToks]
  | cons t ts ih =>
    cases t with
    | lit c =>
      simp only [expandToks, List.mem_cons, reduceCtorEq, false_or]
      rw [← ih]
      cases expandToks o ts <;> simp
    | key k =>
      simp only [expandToks, List.mem_cons, Tok.key.injEq]
      cases hk : optGet o k with
      | none => simp; exact Or.inl hk
      | some v =>
        constructor
        · intro h
          have : ∃ k, expandToks o ts = .error k := by
            cases hr : expandToks o ts with
            | error e => exact ⟨e, rfl⟩
            | ok r => simp [hr] at h
          obtain ⟨k', hk1, hk2⟩ := ih.1 this
          exact ⟨k', Or.inr hk1, hk2⟩
        · rintro ⟨k', hk1 | hk1, hk2⟩
          · subst hk1; simp [hk] at hk2
          · obtain ⟨e, he⟩ := ih.2 ⟨k', hk1, hk2⟩
            exact ⟨e, by simp [he]⟩
    | unterminated t =>
      simp only [expandToks, List.mem_cons, reduceCtorEq, false_or]
      rw [← ih]
      cases expandToks o ts <;> simp

mutual
  theorem tokLit_no_close (o : Opts) (s : Str) (h : '}' ∉ s) : expandToks o (tokLit s) = .ok s := by
    cases s with
    | nil => simp [tokLit, expandToks]
    | cons c cs =>
      have hc : '}' ∉ cs := fun hm => h (List.mem_cons_of_mem _ hm)
      unfold tokLit
      by_cases h1 : c = '{'
      · simp only [h1, if_true]
        have := tokKey_no_close o [] cs hc
        simpa [h1] using this
      · simp [h1, expandToks, tokLit_no_close o cs hc]
  theorem tokKey_no_close (o : Opts) (key s : Str) (h : '}' ∉ s) :
      expandToks o (tokKey key s) = .ok ('{' :: key ++ s) := by
    cases s with
    | nil => simp [tokKey, expandToks]
    | cons c cs =>
      have hc : '}' ∉ cs := fun hm => h (List.mem_cons_of_mem _ hm)
      have hne : c ≠ '}' := fun he => h (by simp [he])
      unfold tokKey
      simp only [hne, if_false]
      have := tokKey_no_close o (key ++ [c]) cs hc
      simpa using this
end

theorem tokLit_no_open (o : Opts) (s : Str) (h : '{' ∉ s) : expandToks o (tokLit s) = .ok s := by
  induction s with
  | nil => simp [tokLit, expandToks]
  | cons c cs ih =>
    have hc : '{' ∉ cs := fun hm => h (List.mem_cons_of_mem _ hm)
    have hne : c ≠ '{' := fun he => h (by simp [he])
    unfold tokLit
    simp [hne, expandToks, ih hc]

/-- the "no replacement at all" fast path of the code is redundant: a component is always
expanded by the one declarative rule. -/
theorem escapeComponent_spec (o : Opts) (c : Str) : escapeComponent o c = expandComponentSpec o c := by
  unfold escapeComponent expandComponentSpec tokenize
  split
  · rename_i h
    simp only [Bool.or_eq_true, Bool.not_eq_true', List.contains_eq_mem, decide_eq_false_iff_not] at h
    rcases h with h | h
    · exact (tokLit_no_open o c (by simpa using h)).symm
    · exact (tokLit_no_close o c (by simpa using h)).symm
  · exact scanLit_spec o c

theorem escapeComponents_spec (o : Opts) (buf : Str) (cs : List Str) :
    escapeComponents o buf cs = escapeComponentsSpec o buf cs := by
  induction cs generalizing buf with
  | nil => rfl
  | cons c cs ih =>
    unfold escapeComponents escapeComponentsSpec
    rw [escapeComponent_spec]
    cases expandComponentSpec o c with
    | error e => rfl
    | ok r => exact ih _

/-- **`escape_path` is the specification**, for every path text and every option map. -/
theorem escapePath_spec : escapePath = escapePathSpec := by
  funext o raw
  exact escapeComponents_spec o [] (components raw)

/-- consequently every output of a generation is unchanged when the writer is run on the
declarative expansion instead of the code's scanner. -/
theorem generate_spec (d : Document) (o : Opts) (m : Mode) (vc : Bool) :
    generate d o m vc escapePathSpec = generate d o m vc := by
  rw [← escapePath_spec]

end Slinky.C07
