/-
  C10, the class statements — tied to the source text (lean/Src/Formats.lean, regenerated from
  script_buffer.rs / linker_writer.rs on every run).
-/
import Src.Formats
import Props.C10
namespace Slinky.C10

/-- `write_symbol_max_self(sym, other)`: `sym = MAX(sym, other);`. -/
theorem max_self_src (s other : Str) :
    (maxSelf s other).renderBody = fmt Src.sb__write_symbol_max_self_0 [.s s, .s s, .s other] := by
  simp [maxSelf, Line.renderBody, Expr.render, fmt, Src.sb__write_symbol_max_self_0]

/-- a class with `fixed_vram`: `<class start> = 0x%08X;`. -/
theorem class_fixed_src (s : Str) (v : Nat) :
    (linkerSym s (.hex8 v)).renderBody
      = fmt Src.sb__write_symbol_assignment_3 [.s s, .s (fmt Src.lw__add_segment_0 [.n v])] := by
  simp [linkerSym, Line.renderBody, Expr.render, fmt, Src.sb__write_symbol_assignment_3, Src.lw__add_segment_0]

/-- the initial value of a class start without an address of its own and of every class end. -/
theorem class_zero_src (s : Str) :
    (linkerSym s (.hex8 0)).renderBody
      = fmt Src.sb__write_symbol_assignment_3 [.s s, .s (fmt Src.lw__add_segment_1 [])]
    ∧ Src.lw__add_segment_1 = Src.lw__add_segment_2 := by
  constructor
  · have : toHex8 0 = c!"00000000" := by decide
    simp [linkerSym, Line.renderBody, Expr.render, fmt, Src.sb__write_symbol_assignment_3, Src.lw__add_segment_1, this]
  · decide

/-- the class size `end - start` of `end_sections`. -/
theorem class_size_src (s e b : Str) :
    (linkerSym s (.sub e b)).renderBody
      = fmt Src.sb__write_symbol_assignment_3 [.s s, .s (fmt Src.lw__end_sections_0 [.s e, .s b])] := by
  simp [linkerSym, Line.renderBody, Expr.render, fmt, Src.sb__write_symbol_assignment_3, Src.lw__end_sections_0]

theorem counts_src : Src.sb__write_symbol_max_self_count = 1 ∧ Src.lw__add_segment_count = 12
    ∧ Src.lw__end_sections_count = 6 := by decide

end Slinky.C10
