import Props.Lemmas
namespace Slinky.C02
theorem placeholder : True := trivial
end Slinky.C02
