/-
  C02 — layout order follows the document.
-/
import Props.C01
import Props.C03
import Props.ImageSegment
namespace Slinky.C02
open Slinky W

/-- **segments in document order.** What `add_segment` writes for the list of segments is the
concatenation, in document order, of what it writes for each of them. -/
theorem segments_in_document_order (cx : Ctx) :
    ∀ (segs : List Segment) (em : List Str) (ls : List Line) (em' : List Str),
      addSegments cx em segs = .ok (ls, em') →
      ∃ parts : List (List Line), parts.length = segs.length ∧ ls = parts.flatten ∧
        ∀ i (hi : i < segs.length) (hp : i < parts.length), ∃ e1 e2, addSegment cx e1 segs[i] = .ok (parts[i], e2) := by
  intro segs
  induction segs with
  | nil =>
    intro em ls em' h
    simp [addSegments] at h
    exact ⟨[], rfl, by simp [h.1], by intro i hi; simp at hi⟩
  | cons seg rest ih =>
    intro em ls em' h
    unfold addSegments at h
    split at h
    · contradiction
    · rename_i a em1 ha
      split at h
      · contradiction
      · rename_i b em2 hb
        injection h with h
        simp only [Prod.mk.injEq] at h
        obtain ⟨parts, hlen, hflat, hparts⟩ := ih em1 b em2 hb
        refine ⟨a :: parts, by simp [hlen], by simp [← h.1, hflat], ?_⟩
        intro i hi hp
        cases i with
        | zero => exact ⟨em, em1, by simpa using ha⟩
        | succ j =>
          have hj : j < rest.length := by simpa using hi
          have hpj : j < parts.length := by simpa using hp
          obtain ⟨e1, e2, he⟩ := hparts j hj hpj
          exact ⟨e1, e2, by simpa using he⟩

/-- **allocatable before noload**: inside a segment the allocatable output section comes
first, then the noload one (`C03.segment_statements`); and **groups follow the configured
list**: the sections of one output section are written in list order, separated by one blank
line. -/
theorem groups_follow_the_list (f : Str → R (List Line)) :
    sectionLoop f [] = .ok [] ∧
    (∀ s, sectionLoop f [s] = f s) ∧
    (∀ s t rest a b, f s = .ok a → sectionLoop f (t :: rest) = .ok b →
        sectionLoop f (s :: t :: rest) = .ok (a ++ [.blank] ++ b)) := by
  refine ⟨rfl, fun s => rfl, ?_⟩
  intro s t rest a b ha hb
  simp [sectionLoop, ha, hb]

/-- **a group is start symbol, entries, end symbol** — the entries being the files of the
segment in list order (`emit_section` walks `segment.files` front to back, and
`C01.group_is_concatenation` does the same one level down: depth-first order). -/
theorem entries_in_file_order (cx : Ctx) (seg : Segment) (sec : Str) (secs : List Str) (base0 d : Str)
    (hb : cx.esc cx.o cx.d.settings.basePath = .ok base0) (hd : cx.esc cx.o seg.dir = .ok d)
    (hr : cx.refPartial = false) :
    emitSection cx seg sec secs =
      concatMapE (fun file => emitEntry cx seg secs (fuelFor seg) file sec (pathPush base0 d) []) seg.files := by
  simp [emitSection, hb, hd, hr, liftPath]

/-- **sub-group sections directly follow their lead section for the same file**: for an object
entry without `section_order`, the statements for a section `k` are the statement for `k`
itself immediately followed by everything its sub-group sections contribute, in the order of
the sub-group list. -/
theorem subgroups_follow_lead (cx : Ctx) (seg : Segment) (secs : List Str) (n : Nat)
    (p : Str) (c : Cond) (keep : Keep) (sec base : Str) (parents : List Str) (q : Str)
    (hinc : shouldEmit cx.o c = true) (hnp : sec ∉ parents) (hesc : cx.esc cx.o p = .ok q)
    (hr : cx.refPartial = false) :
    emitEntry cx seg secs (n + 1) (.mk p .object [] 0 [] [] [] [] [] c keep) sec base parents
      = (match concatMapE (fun other => emitEntry cx seg secs n (.mk p .object [] 0 [] [] [] [] [] c keep) other base (sec :: parents))
                (subgroupsOf seg sec) with
         | .ok b => .ok (.input (keepFor keep sec) (display (pathPush base q)) none sec seg.wildcardSections :: b)
         | .error e => .error e) := by
  rw [emitEntry]
  simp only [FileInfo.cond, FileInfo.sectionOrder, FileInfo.kind, FileInfo.path, FileInfo.keep, hinc,
    Bool.not_true, Bool.false_eq_true, if_false, hnp, sectionsToEmitHere, List.isEmpty_nil, if_true]
  rw [C01.concatMapE_singleton]
  simp only [hesc, liftPath, hr]
  cases concatMapE (fun other => emitEntry cx seg secs n (.mk p .object [] 0 [] [] [] [] [] c keep) other base (sec :: parents))
      (subgroupsOf seg sec) with
  | error e => simp
  | ok b => simp

/-- **`section_order`**: the sections an entry contributes to a group are the group's own
section (unless the entry moves it elsewhere) and every section the entry moves there, sorted
by position in the section list being written, ties by name — whatever the map's order. -/
theorem moved_sections_sorted (order : List (Str × Str)) (sec : Str) (secs : List Str) (h : order ≠ []) :
    sectionsToEmitHere order sec secs =
      sortBy (keyLe secs)
        ((if (lookup sec order).isSome then [] else [sec])
          ++ order.filterMap (fun kv => if kv.2 = sec then some kv.1 else none)) := by
  unfold sectionsToEmitHere
  cases order with
  | nil => exact absurd rfl h
  | cons a as => simp


/-! ### in the linked image (the linker semantics `Slinkyv.Ld`) -/

open Ld in
/-- **C02, image clause**: along the statements of one output section of a segment the
addresses of the placed input sections never decrease — each one ends before the next one
starts — for every object table and every state of the link. -/
theorem image_addresses_follow_statements (objs : List InSec) (cx : Ctx) (seg : Segment) (secs : List Str) (noload : Bool)
    (ls : List Line) (h : writeSegment cx seg secs noload = .ok ls) (st : St) (ho : Outside st) (k : List Line) :
    ∃ new, (execK objs st ls k).placed = st.placed ++ new ∧
      new.Pairwise (fun p q => p.addr + p.inp.size ≤ q.addr) := by
  obtain ⟨start, end_, al, new, st', name, addr, h0, _, _, _, _, _, _, _, h8, h9, _⟩ := section_image objs cx seg secs noload ls h st ho k
  exact ⟨new, h0 ▸ h8, chainOk_sorted _ _ _ _ h9⟩

end Slinky.C02
