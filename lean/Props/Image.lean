/-
  Props.Image — facts about the linker semantics `Slinkyv.Ld` that hold for every object
  table and every state: what the statements slinky writes inside an output section do to the
  location counter, the symbols and the placed input sections. The image-level clauses of the
  properties (Props/C0x.lean, sections "in the linked image") are corollaries.
-/
import Props.Writer
import Slinkyv.Ld
namespace Slinky
namespace Ld
open C04

theorem alignUp_eq (x a : Nat) : Ld.alignUp x a = C04.alignUp x a := rfl

theorem le_alignUp (x a : Nat) : x ≤ Ld.alignUp x a := by
  unfold Ld.alignUp
  split
  · exact Nat.le_refl x
  · rename_i h
    have ha : 0 < a := by omega
    have := Nat.div_add_mod (x + a - 1) a
    have hm := Nat.mod_lt (x + a - 1) ha
    rw [Nat.mul_comm] at this
    omega

/-! ### running a list of statements -/

theorem exec_eq_execK (objs : List InSec) (l : List Line) : ∀ st, exec objs st l = execK objs st l [] := by
  induction l with
  | nil => intro st; rfl
  | cons x r ih => intro st; simp [exec, execK, ih]

theorem execK_append (objs : List InSec) (a b k : List Line) :
    ∀ st, execK objs st (a ++ b) k = execK objs (execK objs st a (b ++ k)) b k := by
  induction a with
  | nil => intro st; rfl
  | cons x r ih => intro st; simp [execK, ih, List.append_assoc]

/-! ### placements of one run of statements -/

/-- `new` was placed, in this order, without overlap, between `lo` and `hi`, all in `out`. -/
def chainOk (out : Str) : Nat → List Placed → Nat → Prop
  | lo, [], hi => lo ≤ hi
  | lo, p :: ps, hi => lo ≤ p.addr ∧ p.out = out ∧ chainOk out (p.addr + p.inp.size) ps hi

theorem chainOk_le (out : Str) : ∀ (l : List Placed) (lo hi : Nat), chainOk out lo l hi → lo ≤ hi := by
  intro l
  induction l with
  | nil => intro lo hi h; exact h
  | cons p ps ih =>
    intro lo hi h
    have := ih _ _ h.2.2
    have := h.1
    omega

theorem chainOk_weaken (out : Str) (l : List Placed) (lo lo' hi : Nat) (hl : lo' ≤ lo) (h : chainOk out lo l hi) :
    chainOk out lo' l hi := by
  cases l with
  | nil => exact Nat.le_trans hl h
  | cons p ps => exact ⟨Nat.le_trans hl h.1, h.2.1, h.2.2⟩

theorem chainOk_append (out : Str) : ∀ (a : List Placed) (b : List Placed) (lo mid hi : Nat),
    chainOk out lo a mid → chainOk out mid b hi → chainOk out lo (a ++ b) hi := by
  intro a
  induction a with
  | nil => intro b lo mid hi ha hb; exact chainOk_weaken out b mid lo hi ha hb
  | cons p ps ih => intro b lo mid hi ha hb; exact ⟨ha.1, ha.2.1, ih b _ mid hi ha.2.2 hb⟩

theorem chainOk_extend (out : Str) (l : List Placed) (lo hi hi' : Nat) (hh : hi ≤ hi') :
    ∀ (_ : chainOk out lo l hi), chainOk out lo l hi' := by
  induction l generalizing lo with
  | nil => intro h; exact Nat.le_trans h hh
  | cons p ps ih => intro h; exact ⟨h.1, h.2.1, ih _ h.2.2⟩

/-- every member of a chain lies inside its bounds, in the named output section. -/
theorem chainOk_mem (out : Str) : ∀ (l : List Placed) (lo hi : Nat), chainOk out lo l hi →
    ∀ p ∈ l, lo ≤ p.addr ∧ p.addr + p.inp.size ≤ hi ∧ p.out = out := by
  intro l
  induction l with
  | nil => intro lo hi _ p hp; cases hp
  | cons q qs ih =>
    intro lo hi h p hp
    rcases List.mem_cons.1 hp with rfl | hp
    · exact ⟨h.1, chainOk_le out qs _ _ h.2.2, h.2.1⟩
    · have := ih _ _ h.2.2 p hp
      exact ⟨by have := h.1; omega, this.2.1, this.2.2⟩

/-- in a chain an earlier placement ends before a later one starts: addresses never decrease
along the order of placement. -/
theorem chainOk_sorted (out : Str) : ∀ (l : List Placed) (lo hi : Nat), chainOk out lo l hi →
    l.Pairwise (fun p q => p.addr + p.inp.size ≤ q.addr) := by
  intro l
  induction l with
  | nil => intro lo hi _; exact List.Pairwise.nil
  | cons q qs ih =>
    intro lo hi h
    refine List.Pairwise.cons ?_ (ih _ _ h.2.2)
    intro r hr
    exact (chainOk_mem out qs _ _ h.2.2 r hr).1

/-- every placement sits at a multiple of the alignment in force for it: the section's
`SUBALIGN` when it has one, the input section's own alignment otherwise. -/
def alignedAll (sub : Option Nat) (l : List Placed) : Prop :=
  ∀ p ∈ l, 1 ≤ effAlign sub p.inp → effAlign sub p.inp ∣ p.addr

theorem alignedAll_append (sub : Option Nat) (a b : List Placed) (ha : alignedAll sub a) (hb : alignedAll sub b) :
    alignedAll sub (a ++ b) := by
  intro p hp
  rcases List.mem_append.1 hp with h | h
  · exact ha p h
  · exact hb p h

theorem alignUp_dvd' (x a : Nat) (ha : 1 ≤ a) : a ∣ Ld.alignUp x a := by
  unfold Ld.alignUp
  split
  · rename_i h
    have : a = 1 := by omega
    subst this
    exact Nat.one_dvd x
  · exact Nat.dvd_mul_left a _

/-- the location counter is inside the output section `c`. -/
structure Inside (c : Cur) (st : St) : Prop where
  cur : st.cur = some c
  le : c.addr ≤ st.dot
  nd : st.inDiscard = false

/-- what a run of statements inside an output section does: the section stays open, the
location counter does not go back, no output section is closed, and what was placed forms a
chain between the old and the new location counter. -/
structure Adv (c : Cur) (st st' : St) : Prop where
  inside : Inside c st'
  mono : st.dot ≤ st'.dot
  secs : st'.secs = st.secs
  placed : ∃ new, st'.placed = st.placed ++ new ∧ chainOk c.name st.dot new st'.dot ∧ alignedAll c.subalign new

theorem alignedAll_nil (sub : Option Nat) : alignedAll sub [] := fun _ h => by cases h

theorem Adv.refl (c : Cur) (st : St) (h : Inside c st) : Adv c st st :=
  ⟨h, Nat.le_refl _, rfl, [], by simp, Nat.le_refl _, alignedAll_nil _⟩

theorem Adv.trans {c : Cur} {a b d : St} (h₁ : Adv c a b) (h₂ : Adv c b d) : Adv c a d := by
  obtain ⟨n₁, hp₁, hc₁, ha₁⟩ := h₁.placed
  obtain ⟨n₂, hp₂, hc₂, ha₂⟩ := h₂.placed
  exact ⟨h₂.inside, Nat.le_trans h₁.mono h₂.mono, by rw [h₂.secs, h₁.secs],
    n₁ ++ n₂, by rw [hp₂, hp₁, List.append_assoc], chainOk_append _ _ _ _ _ _ hc₁ hc₂, alignedAll_append _ _ _ ha₁ ha₂⟩

/-! ### `placeAll` -/

theorem placeAll_spec (out : Str) (sub : Option Nat) : ∀ (l : List InSec) (st : St),
    let st' := placeAll out sub st l
    st'.cur = st.cur ∧ st'.inDiscard = st.inDiscard ∧ st'.secs = st.secs ∧ st'.syms = st.syms ∧ st'.emptied = st.emptied ∧
    st'.discarded = st.discarded ∧
    ∃ new, st'.placed = st.placed ++ new ∧ chainOk out st.dot new st'.dot ∧ new.map (·.inp) = l ∧ alignedAll sub new := by
  intro l
  induction l with
  | nil => intro st; exact ⟨rfl, rfl, rfl, rfl, rfl, rfl, [], by simp [placeAll], Nat.le_refl _, rfl, alignedAll_nil _⟩
  | cons i rest ih =>
    intro st
    simp only [placeAll]
    obtain ⟨h1, h2, h3, h4, h5, h6, new, hp, hc, hm, hal⟩ := ih { st with
        dot := Ld.alignUp st.dot (effAlign sub i) + i.size,
        placed := st.placed ++ [(⟨i, Ld.alignUp st.dot (effAlign sub i), out⟩ : Placed)] }
    refine ⟨h1, h2, h3, h4, h5, h6, ⟨i, Ld.alignUp st.dot (effAlign sub i), out⟩ :: new, ?_, ?_, ?_, ?_⟩
    · rw [hp]; simp
    · exact ⟨le_alignUp _ _, rfl, hc⟩
    · simp [hm]
    · intro p hp'
      rcases List.mem_cons.1 hp' with rfl | hp'
      · intro h1'; exact alignUp_dvd' _ _ h1'
      · exact hal p hp'

/-! ### one statement inside an output section -/

/-- the symbol a statement assigns (the location counter is not a symbol). -/
def symOf : Line → Option Str
  | .assign s _ _ _ _ => if s = c!"." then none else some s
  | .addAssign s _ => if s = c!"." then none else some s
  | _ => none

theorem step_assign_sym (objs : List InSec) (st : St) (s : Str) (e : Expr) (p h lk : Bool) (r : List Line)
    (hs : s ≠ c!".") (hd : st.inDiscard = false) :
    step objs st (.assign s e p h lk) r = { st with syms := st.syms ++ [(s, eval st e)] } := by
  simp [step, hd, hs, setSym]

theorem gp_ne_dot : c!"_gp" ≠ c!"." := by decide

/-- **every statement slinky writes between the braces of an output section moves the
location counter forward only**, keeps the section open, and places its input sections as a
chain from the old to the new location counter. -/
theorem step_inner (objs : List InSec) (sty : Style) (wild : Bool) (l : Line) (hl : W.InnerLine sty wild l)
    (c : Cur) (st : St) (hin : Inside c st) (r : List Line) :
    Adv c st (step objs st l r) := by
  cases hl with
  | body hb =>
    cases hb with
    | input k p m s =>
      simp only [step, hin.cur]
      have := placeAll_spec c.name c.subalign (objs.filter fun i => selects p m s wild i && isFree st i) st
      obtain ⟨h1, h2, h3, _, _, _, new, hp, hc, _, hal⟩ := this
      exact ⟨⟨by rw [h1, hin.cur], Nat.le_trans hin.le (chainOk_le _ _ _ _ hc), by rw [h2, hin.nd]⟩,
        chainOk_le _ _ _ _ hc, h3, new, hp, hc, hal⟩
    | pad n =>
      have hs : step objs st (.addAssign c!"." (.hex n)) r = { st with dot := st.dot + n } := by
        simp [step, hin.nd, eval]
      rw [hs]
      exact ⟨⟨hin.cur, by have := hin.le; simp; omega, hin.nd⟩, by simp, rfl, [], by simp, by simp [chainOk], alignedAll_nil _⟩
    | offset nm =>
      unfold linkerSym
      rw [step_assign_sym objs st _ _ _ _ _ r (W.endsOk_ne_dot _ (W.linkerOffset_ok sty nm)) hin.nd]
      exact ⟨⟨hin.cur, hin.le, hin.nd⟩, Nat.le_refl _, rfl, [], by simp, Nat.le_refl _, alignedAll_nil _⟩
  | blank => simp only [step]; exact Adv.refl c st hin
  | alignDot a =>
    unfold alignSymbol
    have hs : step objs st (.assign c!"." (.alignE c!"." a) false false false) r
        = { st with dot := c.addr + Ld.alignUp (st.dot - c.addr) a } := by
      simp [step, hin.nd, eval, base, relDot, hin.cur]
    rw [hs]
    have h := le_alignUp (st.dot - c.addr) a
    have hle := hin.le
    exact ⟨⟨hin.cur, by simp, hin.nd⟩, by simp; omega, rfl, [], by simp, by simp [chainOk]; omega, alignedAll_nil _⟩
  | gp off p h =>
    rw [step_assign_sym objs st _ _ _ _ _ r gp_ne_dot hin.nd]
    exact ⟨⟨hin.cur, hin.le, hin.nd⟩, Nat.le_refl _, rfl, [], by simp, Nat.le_refl _, alignedAll_nil _⟩
  | symDot s hs =>
    unfold linkerSym
    rw [step_assign_sym objs st _ _ _ _ _ r (W.endsOk_ne_dot _ hs) hin.nd]
    exact ⟨⟨hin.cur, hin.le, hin.nd⟩, Nat.le_refl _, rfl, [], by simp, Nat.le_refl _, alignedAll_nil _⟩
  | symSize s a b hs =>
    unfold linkerSym
    rw [step_assign_sym objs st _ _ _ _ _ r (W.endsOk_ne_dot _ hs) hin.nd]
    exact ⟨⟨hin.cur, hin.le, hin.nd⟩, Nat.le_refl _, rfl, [], by simp, Nat.le_refl _, alignedAll_nil _⟩

/-- a run of such statements. -/
theorem run_inner (objs : List InSec) (sty : Style) (wild : Bool) (c : Cur) :
    ∀ (ls : List Line) (_ : ∀ l ∈ ls, W.InnerLine sty wild l) (st : St) (_ : Inside c st) (k : List Line),
      Adv c st (execK objs st ls k) := by
  intro ls
  induction ls with
  | nil => intro _ st hin k; exact Adv.refl c st hin
  | cons l rest ih =>
    intro hall st hin k
    have h1 := step_inner objs sty wild l (hall l List.mem_cons_self) c st hin (rest ++ k)
    have h2 := ih (fun x hx => hall x (List.mem_cons_of_mem _ hx)) _ h1.inside k
    exact Adv.trans h1 h2

/-! ### symbols along a run -/

theorem lookupLast_snoc {β} (n s : Str) (v : β) (l : List (Str × β)) :
    lookupLast n (l ++ [(s, v)]) = if s = n then some v else lookupLast n l := by
  simp [lookupLast, lookup]

theorem lookupLast_snoc2 {β} (n a b : Str) (va vb : β) (l : List (Str × β)) :
    lookupLast n (l ++ [(a, va), (b, vb)]) = if b = n then some vb else if a = n then some va else lookupLast n l := by
  simp [lookupLast, lookup]

theorem step_inner_syms (objs : List InSec) (sty : Style) (wild : Bool) (l : Line) (hl : W.InnerLine sty wild l)
    (c : Cur) (st : St) (hin : Inside c st) (r : List Line) :
    (step objs st l r).syms = st.syms ∨
      ∃ s v, symOf l = some s ∧ (step objs st l r).syms = st.syms ++ [(s, v)] := by
  cases hl with
  | body hb =>
    cases hb with
    | input k p m s =>
      left
      simp only [step, hin.cur]
      exact (placeAll_spec c.name c.subalign _ st).2.2.2.1
    | pad n => left; simp [step, hin.nd, eval]
    | offset nm =>
      right
      unfold linkerSym
      have hne := W.endsOk_ne_dot _ (W.linkerOffset_ok sty nm)
      rw [step_assign_sym objs st _ _ _ _ _ r hne hin.nd]
      exact ⟨_, _, by simp [symOf, hne], rfl⟩
  | blank => left; simp [step]
  | alignDot a => left; unfold alignSymbol; simp [step, hin.nd, eval, base, relDot, hin.cur]
  | gp off p h =>
    right
    rw [step_assign_sym objs st _ _ _ _ _ r gp_ne_dot hin.nd]
    exact ⟨_, _, by simp [symOf, gp_ne_dot], rfl⟩
  | symDot s hs =>
    right
    unfold linkerSym
    have hne := W.endsOk_ne_dot _ hs
    rw [step_assign_sym objs st _ _ _ _ _ r hne hin.nd]
    exact ⟨_, _, by simp [symOf, hne], rfl⟩
  | symSize s a b hs =>
    right
    unfold linkerSym
    have hne := W.endsOk_ne_dot _ hs
    rw [step_assign_sym objs st _ _ _ _ _ r hne hin.nd]
    exact ⟨_, _, by simp [symOf, hne], rfl⟩

/-- a symbol that no statement of the run assigns keeps its value. -/
theorem run_inner_keeps (objs : List InSec) (sty : Style) (wild : Bool) (c : Cur) (n : Str) :
    ∀ (ls : List Line) (_ : ∀ l ∈ ls, W.InnerLine sty wild l) (_ : ∀ l ∈ ls, symOf l ≠ some n)
      (st : St) (_ : Inside c st) (k : List Line),
      lookupLast n (execK objs st ls k).syms = lookupLast n st.syms := by
  intro ls
  induction ls with
  | nil => intro _ _ st _ k; rfl
  | cons l rest ih =>
    intro hall hno st hin k
    have h1 := step_inner objs sty wild l (hall l List.mem_cons_self) c st hin (rest ++ k)
    have h2 := ih (fun x hx => hall x (List.mem_cons_of_mem _ hx)) (fun x hx => hno x (List.mem_cons_of_mem _ hx)) _ h1.inside k
    simp only [execK]
    rw [h2]
    rcases step_inner_syms objs sty wild l (hall l List.mem_cons_self) c st hin (rest ++ k) with h | ⟨s, v, hs, h⟩
    · rw [h]
    · rw [h, lookupLast_snoc]
      have : s ≠ n := fun e => hno l List.mem_cons_self (by rw [hs, e])
      simp [this]

/-! ### a bracketed run: `P; S = .; B; Q; E = .; Z = ABSOLUTE(E - S)` -/

def isInput : Line → Bool
  | .input _ _ _ _ _ => true
  | _ => false

theorem step_inner_noinput (objs : List InSec) (sty : Style) (wild : Bool) (l : Line) (hl : W.InnerLine sty wild l)
    (hn : isInput l = false) (c : Cur) (st : St) (hin : Inside c st) (r : List Line) :
    (step objs st l r).placed = st.placed := by
  cases hl with
  | body hb =>
    cases hb with
    | input k p m s => simp [isInput] at hn
    | pad n => simp [step, hin.nd, eval]
    | offset nm =>
      unfold linkerSym
      rw [step_assign_sym objs st _ _ _ _ _ r (W.endsOk_ne_dot _ (W.linkerOffset_ok sty nm)) hin.nd]
  | blank => simp [step]
  | alignDot a => unfold alignSymbol; simp [step, hin.nd, eval, base, relDot, hin.cur]
  | gp off p h => rw [step_assign_sym objs st _ _ _ _ _ r gp_ne_dot hin.nd]
  | symDot s hs => unfold linkerSym; rw [step_assign_sym objs st _ _ _ _ _ r (W.endsOk_ne_dot _ hs) hin.nd]
  | symSize s a b hs => unfold linkerSym; rw [step_assign_sym objs st _ _ _ _ _ r (W.endsOk_ne_dot _ hs) hin.nd]

theorem run_inner_noinput (objs : List InSec) (sty : Style) (wild : Bool) (c : Cur) :
    ∀ (ls : List Line) (_ : ∀ l ∈ ls, W.InnerLine sty wild l) (_ : ∀ l ∈ ls, isInput l = false)
      (st : St) (_ : Inside c st) (k : List Line),
      (execK objs st ls k).placed = st.placed := by
  intro ls
  induction ls with
  | nil => intro _ _ st _ k; rfl
  | cons l rest ih =>
    intro hall hno st hin k
    have h1 := step_inner objs sty wild l (hall l List.mem_cons_self) c st hin (rest ++ k)
    simp only [execK]
    rw [ih (fun x hx => hall x (List.mem_cons_of_mem _ hx)) (fun x hx => hno x (List.mem_cons_of_mem _ hx)) _ h1.inside k]
    exact step_inner_noinput objs sty wild l (hall l List.mem_cons_self) (hno l List.mem_cons_self) c st hin _

/-- `S = .;` inside an output section. -/
theorem step_symDot (objs : List InSec) (st : St) (S : Str) (hS : S ≠ c!".") (hd : st.inDiscard = false) (r : List Line) :
    step objs st (linkerSym S .dot) r = { st with syms := st.syms ++ [(S, Val.num st.dot)] } := by
  unfold linkerSym
  rw [step_assign_sym objs st _ _ _ _ _ r hS hd]
  simp [eval]

theorem operand_num (st : St) (n : Str) (v : Nat) (hn : n ≠ c!".") (h : lookupLast n st.syms = some (.num v)) :
    operand st n = some v := by
  simp [operand, hn, h, resolve]

/-- **a bracketed run.** `P` and `Q` place nothing; nothing after `S = .` assigns `S`. Then
`S` holds the location counter in front of `B`, `E` the one behind `Q`, `S ≤ E`, `Z` is their
difference, and everything placed lies, in order and without overlap, between `S` and `E`. -/
theorem bracket_run (objs : List InSec) (sty : Style) (wild : Bool) (c : Cur) (P B Q : List Line) (S E Z : Str)
    (hP : ∀ l ∈ P, W.InnerLine sty wild l) (hPn : ∀ l ∈ P, isInput l = false)
    (hB : ∀ l ∈ B, W.InnerLine sty wild l) (hBs : ∀ l ∈ B, symOf l ≠ some S)
    (hQ : ∀ l ∈ Q, W.InnerLine sty wild l) (hQn : ∀ l ∈ Q, isInput l = false) (hQs : ∀ l ∈ Q, symOf l ≠ some S)
    (hS : S ≠ c!".") (hE : E ≠ c!".") (hZ : Z ≠ c!".") (hSE : S ≠ E) (hSZ : S ≠ Z) (hEZ : E ≠ Z)
    (st : St) (hin : Inside c st) (k : List Line) :
    ∃ (s e : Nat) (new : List Placed) (st' : St),
      st' = execK objs st (P ++ [linkerSym S .dot] ++ B ++ Q ++ [linkerSym E .dot, linkerSym Z (.absSub E S)]) k ∧
      st.dot ≤ s ∧ s ≤ e ∧ e = st'.dot ∧ Inside c st' ∧ st'.secs = st.secs ∧
      s = (execK objs st P ([linkerSym S .dot] ++ B ++ Q ++ [linkerSym E .dot, linkerSym Z (.absSub E S)] ++ k)).dot ∧
      lookupLast S st'.syms = some (.num s) ∧ lookupLast E st'.syms = some (.num e) ∧
      lookupLast Z st'.syms = some (.num ((e + M32 - s % M32) % M32)) ∧
      st'.placed = st.placed ++ new ∧ chainOk c.name s new e ∧ alignedAll c.subalign new ∧
      (∃ mid : St, Inside c mid ∧ s ≤ mid.dot ∧
        e = (execK objs mid Q ([linkerSym E .dot, linkerSym Z (.absSub E S)] ++ k)).dot) := by
  -- after P
  have e1 : execK objs st (P ++ [linkerSym S .dot] ++ B ++ Q ++ [linkerSym E .dot, linkerSym Z (.absSub E S)]) k
      = execK objs (execK objs (execK objs (execK objs (execK objs st P ([linkerSym S .dot] ++ B ++ Q ++ [linkerSym E .dot, linkerSym Z (.absSub E S)] ++ k))
          [linkerSym S .dot] (B ++ Q ++ [linkerSym E .dot, linkerSym Z (.absSub E S)] ++ k))
          B (Q ++ [linkerSym E .dot, linkerSym Z (.absSub E S)] ++ k))
          Q ([linkerSym E .dot, linkerSym Z (.absSub E S)] ++ k))
          [linkerSym E .dot, linkerSym Z (.absSub E S)] k := by
    simp only [execK_append, List.append_assoc]
  generalize hk1 : ([linkerSym S .dot] ++ B ++ Q ++ [linkerSym E .dot, linkerSym Z (.absSub E S)] ++ k) = k1 at e1
  generalize hk2 : (B ++ Q ++ [linkerSym E .dot, linkerSym Z (.absSub E S)] ++ k) = k2 at e1
  generalize hk3 : (Q ++ [linkerSym E .dot, linkerSym Z (.absSub E S)] ++ k) = k3 at e1
  generalize hk4 : ([linkerSym E .dot, linkerSym Z (.absSub E S)] ++ k) = k4 at e1
  have a1 := run_inner objs sty wild c P hP st hin k1
  have p1 := run_inner_noinput objs sty wild c P hP hPn st hin k1
  generalize h1 : execK objs st P k1 = st1 at *
  -- S = .
  have e2 : execK objs st1 [linkerSym S .dot] k2 = { st1 with syms := st1.syms ++ [(S, Val.num st1.dot)] } := by
    simp only [execK, List.nil_append]
    exact step_symDot objs st1 S hS a1.inside.nd _
  generalize h2 : execK objs st1 [linkerSym S .dot] k2 = st2 at *
  have in2 : Inside c st2 := by rw [e2]; exact ⟨a1.inside.cur, a1.inside.le, a1.inside.nd⟩
  have s2 : lookupLast S st2.syms = some (.num st1.dot) := by rw [e2]; simp [lookupLast_snoc]
  -- B
  have a3 := run_inner objs sty wild c B hB st2 in2 k3
  have k3s := run_inner_keeps objs sty wild c S B hB hBs st2 in2 k3
  generalize h3 : execK objs st2 B k3 = st3 at *
  -- Q
  have a4 := run_inner objs sty wild c Q hQ st3 a3.inside k4
  have p4 := run_inner_noinput objs sty wild c Q hQ hQn st3 a3.inside k4
  have k4s := run_inner_keeps objs sty wild c S Q hQ hQs st3 a3.inside k4
  generalize h4 : execK objs st3 Q k4 = st4 at *
  -- E = .; Z = ABSOLUTE(E - S)
  have sS4 : lookupLast S st4.syms = some (.num st1.dot) := by rw [k4s, k3s, s2]
  have e5 : execK objs st4 [linkerSym E .dot, linkerSym Z (.absSub E S)] k
      = { st4 with syms := st4.syms ++ [(E, Val.num st4.dot)] ++ [(Z, Val.num ((st4.dot + M32 - st1.dot % M32) % M32))] } := by
    simp only [execK, List.nil_append, List.cons_append]
    rw [step_symDot objs st4 E hE a4.inside.nd]
    unfold linkerSym
    rw [step_assign_sym objs { st4 with syms := st4.syms ++ [(E, Val.num st4.dot)] } _ _ _ _ _ _ hZ a4.inside.nd]
    have oE : operand { st4 with syms := st4.syms ++ [(E, Val.num st4.dot)] } E = some st4.dot :=
      operand_num _ E _ hE (by simp [lookupLast_snoc])
    have oS : operand { st4 with syms := st4.syms ++ [(E, Val.num st4.dot)] } S = some st1.dot :=
      operand_num _ S _ hS (by simp [lookupLast_snoc, Ne.symm hSE, sS4])
    simp only [eval, oE, oS]
  obtain ⟨new, hnew, hchain, halg⟩ := a3.placed
  have hd : st2.dot = st1.dot := by rw [e2]
  refine ⟨st1.dot, st4.dot, new, _, rfl, a1.mono, ?_, ?_, ?_, ?_, rfl, ?_, ?_, ?_, ?_, ?_, halg, ?_⟩
  · have := a3.mono; have := a4.mono; omega
  · rw [e1, e5]
  · rw [e1, e5]; exact ⟨a4.inside.cur, a4.inside.le, a4.inside.nd⟩
  · rw [e1, e5]; simp only []; rw [a4.secs, a3.secs, e2]; simp only []; exact a1.secs
  · rw [e1, e5]; simp [lookupLast_snoc2, Ne.symm hSZ, Ne.symm hSE, sS4]
  · rw [e1, e5]; simp [lookupLast_snoc2, Ne.symm hEZ]
  · rw [e1, e5]; simp [lookupLast_snoc2]
  · rw [e1, e5]; simp only []; rw [p4, hnew, e2]; simp only []; rw [p1]
  · rw [hd] at hchain
    exact chainOk_extend _ _ _ _ _ a4.mono hchain
  · refine ⟨st3, a3.inside, ?_, ?_⟩
    · have := a3.mono; omega
    · rw [h4]

/-! ### the generated names of one section group are pairwise different -/

def last2 (s : Str) : List Char := s.reverse.take 2

theorem last2_append (a suf : Str) (h : 2 ≤ suf.length) : last2 (a ++ suf) = last2 suf := by
  unfold last2
  rw [List.reverse_append, List.take_append_of_le_length (by simpa using h)]

theorem ne_of_last2 {s t : Str} (h : last2 s ≠ last2 t) : s ≠ t := fun e => h (by rw [e])

theorem last2_secStart (sty : Style) (n sec : Str) : last2 (sty.secStart n sec) = (match sty with | .splat => ['T', 'R'] | .makerom => ['t', 'r']) := by
  cases sty <;> (unfold Style.secStart; simp only []; rw [last2_append _ _ (by decide)]; decide)
theorem last2_secEnd (sty : Style) (n sec : Str) : last2 (sty.secEnd n sec) = (match sty with | .splat => ['D', 'N'] | .makerom => ['d', 'n']) := by
  cases sty <;> (unfold Style.secEnd; simp only []; rw [last2_append _ _ (by decide)]; decide)
theorem last2_secSize (sty : Style) (n sec : Str) : last2 (sty.secSize n sec) = (match sty with | .splat => ['E', 'Z'] | .makerom => ['e', 'z']) := by
  cases sty <;> (unfold Style.secSize; simp only []; rw [last2_append _ _ (by decide)]; decide)
theorem last2_linkerOffset (sty : Style) (n : Str) : last2 (sty.linkerOffset n) = (match sty with | .splat => ['T', 'E'] | .makerom => ['t', 'e']) := by
  cases sty <;> (unfold Style.linkerOffset; simp only []; rw [last2_append _ _ (by decide)]; decide)

theorem secStart_ne_secEnd (sty : Style) (n sec n' sec' : Str) : sty.secStart n sec ≠ sty.secEnd n' sec' :=
  ne_of_last2 (by rw [last2_secStart, last2_secEnd]; cases sty <;> decide)
theorem secStart_ne_secSize (sty : Style) (n sec n' sec' : Str) : sty.secStart n sec ≠ sty.secSize n' sec' :=
  ne_of_last2 (by rw [last2_secStart, last2_secSize]; cases sty <;> decide)
theorem secEnd_ne_secSize (sty : Style) (n sec n' sec' : Str) : sty.secEnd n sec ≠ sty.secSize n' sec' :=
  ne_of_last2 (by rw [last2_secEnd, last2_secSize]; cases sty <;> decide)
theorem offset_ne_secStart (sty : Style) (nm n sec : Str) : sty.linkerOffset nm ≠ sty.secStart n sec :=
  ne_of_last2 (by rw [last2_linkerOffset, last2_secStart]; cases sty <;> decide)
theorem offset_ne_secEnd (sty : Style) (nm n sec : Str) : sty.linkerOffset nm ≠ sty.secEnd n sec :=
  ne_of_last2 (by rw [last2_linkerOffset, last2_secEnd]; cases sty <;> decide)
theorem offset_ne_secSize (sty : Style) (nm n sec : Str) : sty.linkerOffset nm ≠ sty.secSize n sec :=
  ne_of_last2 (by rw [last2_linkerOffset, last2_secSize]; cases sty <;> decide)
theorem gp_ne_secStart (sty : Style) (n sec : Str) : c!"_gp" ≠ sty.secStart n sec :=
  ne_of_last2 (by rw [last2_secStart]; cases sty <;> decide)

/-- what a body line assigns is never one of the three symbols of a group. -/
theorem body_symOf (sty : Style) (wild : Bool) (l : Line) (h : W.BodyLine sty wild l) (n sec : Str) :
    symOf l ≠ some (sty.secStart n sec) ∧ symOf l ≠ some (sty.secEnd n sec) ∧ symOf l ≠ some (sty.secSize n sec) := by
  cases h with
  | input k p m s => simp [symOf]
  | pad k => simp [symOf]
  | offset nm =>
    unfold linkerSym
    have hne := W.endsOk_ne_dot _ (W.linkerOffset_ok sty nm)
    simp only [symOf, hne, if_false, ne_eq, Option.some.injEq]
    exact ⟨offset_ne_secStart sty nm n sec, offset_ne_secEnd sty nm n sec, offset_ne_secSize sty nm n sec⟩

end Ld
end Slinky
