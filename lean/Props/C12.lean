/-
  C12 — the dependency file lists exactly what the script references.
-/
import Props.Lemmas
namespace Slinky.C12
open Slinky

/-- In ordinary mode the dependency text is `depsText` of the expanded `target_path` and the
first-occurrence de-duplication of the paths of the script's input statements: pads,
linker offsets, groups and every other kind of line contribute nothing. -/
theorem deps_of_script (d : Document) (o : Opts) (vc : Bool) (out : Outputs)
    (h : generate d o .normal vc = .ok out) :
    (∀ t, out.deps = some t →
        ∃ tgt, d.settings.targetPath = some tgt ∧ ∃ p, escapePath o tgt = .ok p ∧
          t = depsText vc (display p) (dedup (inputPaths out.lines))) ∧
    (out.deps = none → d.settings.targetPath = none) := by
  unfold generate at h
  simp only at h
  split at h
  · contradiction
  · rename_i ls hgen
    split at h
    · contradiction
    · rename_i deps hdeps
      injection h with h
      subst h
      simp only
      unfold mainDeps at hdeps
      unfold optEscape at hdeps
      cases htp : d.settings.targetPath with
      | none =>
        simp only [htp] at hdeps
        injection hdeps with hdeps
        subst hdeps
        simp
      | some tgt =>
        simp only [htp] at hdeps
        cases hesc : escapePath o tgt with
        | error e => simp [hesc] at hdeps
        | ok p =>
          simp only [hesc] at hdeps
          injection hdeps with hdeps
          subst hdeps
          refine ⟨?_, by simp⟩
          intro t ht
          injection ht with ht
          exact ⟨tgt, rfl, p, hesc, by rw [← ht]; rfl⟩

/-- the same in partial mode, where the script in question is the main script (whose input
statements are the partial objects). -/
theorem deps_of_main_partial (d : Document) (o : Opts) (vc : Bool) (out : Outputs)
    (h : generate d o .partialLink vc = .ok out) :
    ∀ t, out.deps = some t →
        ∃ tgt, d.settings.targetPath = some tgt ∧ ∃ p, escapePath o tgt = .ok p ∧
          t = depsText vc (display p) (dedup (inputPaths out.lines)) := by
  unfold generate at h
  simp only at h
  split at h
  · contradiction
  · rename_i po hgen
    split at h
    · contradiction
    · rename_i deps hdeps
      split at h
      · contradiction
      · injection h with h
        subst h
        simp only
        unfold mainDeps at hdeps
        unfold optEscape at hdeps
        cases htp : d.settings.targetPath with
        | none =>
          simp only [htp] at hdeps
          injection hdeps with hdeps
          subst hdeps
          simp
        | some tgt =>
          simp only [htp] at hdeps
          cases hesc : escapePath o tgt with
          | error e => simp [hesc] at hdeps
          | ok p =>
            simp only [hesc] at hdeps
            injection hdeps with hdeps
            subst hdeps
            intro t ht
            injection ht with ht
            exact ⟨tgt, rfl, p, hesc, by rw [← ht]; rfl⟩

/-- every per-segment dependency text of partial mode belongs to the partial script of the
same name and lists the distinct input paths of that script. -/
theorem partial_deps_of_partial_scripts (d : Document) (o : Opts) (vc : Bool) (out : Outputs)
    (h : generate d o .partialLink vc = .ok out) :
    out.partialDeps.length = out.partialLines.length ∧
    ∀ pd pl, (pd, pl) ∈ out.partialDeps.zip out.partialLines →
      pd.1 = pl.1 ∧ ∃ t, partialTarget d o pl.1 = .ok t ∧ pd.2 = depsText vc t (dedup (inputPaths pl.2)) := by
  unfold generate at h
  simp only at h
  split at h
  · contradiction
  · rename_i po hgen
    split at h
    · contradiction
    · rename_i deps hdeps
      split at h
      · contradiction
      · rename_i pdeps hp
        injection h with h
        subst h
        simp only
        have := mapE_zip _ _ _ hp
        refine ⟨this.1, ?_⟩
        intro pd pl hmem
        have h2 := this.2 pl pd (by
          rw [List.mem_iff_getElem] at hmem ⊢
          obtain ⟨i, hi, he⟩ := hmem
          simp only [List.getElem_zip] at he
          refine ⟨i, by simpa [List.length_zip, Nat.min_comm] using hi, ?_⟩
          simp only [List.getElem_zip]
          cases he; rfl)
        split at h2
        · contradiction
        · rename_i t ht
          injection h2 with h2
          subst h2
          exact ⟨rfl, t, ht, rfl⟩

/-- "exactly the distinct paths": the prerequisite list has no repetition and contains a path
iff some input statement of the script names it. -/
theorem prereqs_exact (ls : List Line) :
    (dedup (inputPaths ls)).Nodup ∧
    ∀ p, p ∈ dedup (inputPaths ls) ↔ ∃ k m s w, Line.input k p m s w ∈ ls := by
  refine ⟨nodup_dedup _, ?_⟩
  intro p
  rw [mem_dedup]
  unfold inputPaths
  simp only [List.mem_filterMap]
  constructor
  · rintro ⟨l, hl, hp⟩
    cases l <;> simp [Line.inputPath?] at hp
    rename_i k p' m s w
    subst hp
    exact ⟨k, m, s, w, hl⟩
  · rintro ⟨k, m, s, w, hl⟩
    exact ⟨_, hl, rfl⟩

/-- shape of the dependency text: `<target>:` + one continuation line per prerequisite +
an empty line + one empty rule `<p>:` per prerequisite. -/
theorem shape (vc : Bool) (t : Str) (ps : List Str) :
    depsText false t ps =
      t ++ c!":" ++ (ps.map (fun p => c!" \\\n    " ++ p)).flatten ++ c!"\n\n"
        ++ (ps.map (fun p => p ++ c!":\n")).flatten ∧
    depsText vc t ps = (if vc then c!"# Generated by slinky 0.3.1\n\n" else []) ++ depsText false t ps := by
  constructor
  · simp [depsText]
  · cases vc <;> simp [depsText, versionText]

end Slinky.C12
