/-
  GENERATED-BY-HAND-ONCE (tools/oneoff/mkcore.py) from the proof of `final_class_end`: the same proof with the writer context,
  the segment list and the statements behind the segments left open; `final_class_end_partial` instantiates it for the main
  script of partial mode.
-/
import Props.C10End
import Props.C10Partial
namespace Slinky.C10
open Slinky W Ld

/-- `final_class_end` for any writer context and any statements behind the segments. -/
theorem class_end_core (objs : List InSec) (cx : Ctx) (hsy : cx.emitSecSyms = true) (vc : Bool)
    (segs : List Segment) (ls : List Line) (emitted : List Str) (T : List Line)
    (hsegs : addSegments cx [] segs = .ok (ls, emitted))
    (hall : ∀ s ∈ segs, shouldEmit cx.o s.cond = true → s.allocSections ≠ [])
    (defsyms : List (Str × Nat)) (c : Str)
    (hused : ∃ s ∈ segs, shouldEmit cx.o s.cond = true ∧ s.vramClass = some c)
    (hcount : assignCount (cx.d.settings.style.classEnd c) (versionComment vc ++ (beginSections cx ++ ls ++ T)) ≤ endAssigns cx.o c false segs) :
    ∃ (E : Nat) (vs : List (Segment × Nat)),
      (link objs defsyms (versionComment vc ++ (beginSections cx ++ ls ++ T))).sym (cx.d.settings.style.classEnd c) = some E ∧
      vs.map (·.1) = segs.filter (fun s => decide (shouldEmit cx.o s.cond = true ∧ s.vramClass = some c)) ∧
      (∀ mv ∈ vs, mv.2 ≤ E ∧ (assignCount (cx.d.settings.style.segVramEnd mv.1.name) (versionComment vc ++ (beginSections cx ++ ls ++ T)) ≤ 1 →
          (link objs defsyms (versionComment vc ++ (beginSections cx ++ ls ++ T))).sym (cx.d.settings.style.segVramEnd mv.1.name) = some mv.2)) ∧
      (E = 0 ∨ ∃ mv ∈ vs, E = mv.2) := by
  generalize hd : cx.d = d at *
  generalize ho' : cx.o = o at *
  have hform : versionComment vc ++ (beginSections cx ++ ls ++ T)
      = versionComment vc ++ (beginSections cx ++ (ls ++ T)) := by simp [List.append_assoc]
  rw [hform] at hcount ⊢
  have hb0 : ∀ n, assignCount n (versionComment vc) = 0 := fun n => Slinky.C04.assignCount_quiet n _ (Slinky.C04.versionComment_quiet vc)
  simp only [assignCount_append, hb0] at hcount
  have hlow := class_end_lower cx c segs [] ls emitted hsegs
  rw [hd, ho'] at hlow
  simp only [List.not_mem_nil, decide_false] at hlow
  rw [link_eq]
  generalize carry _ = S0
  rw [execK_append, Slinky.C04.execK_quiet objs _ (Slinky.C04.versionComment_quiet vc)]
  rw [execK_append, execK_append]
  have hb : ∃ st1, st1 = execK objs { syms := S0 } (beginSections cx) (ls ++ T ++ []) ∧ Outside st1 ∧
      lookupLast Ld.romPos st1.syms = some (.num 0) := by
    refine ⟨_, rfl, ?_, ?_⟩
    · unfold beginSections
      cases cx.d.settings.hardcodedGpValue <;> simp [execK, step, setSym] <;> exact ⟨rfl, rfl⟩
    · unfold beginSections
      cases cx.d.settings.hardcodedGpValue <;> simp [execK, step, setSym, eval, lookupLast_snoc, lookupLast_snoc2, Ld.romPos]
  obtain ⟨st1, e1, o1, r1⟩ := hb
  rw [← e1]
  obtain ⟨st', r', E, vs, e', _, _, hvs, hinv', hfacts⟩ := class_end_kept objs cx hsy c segs [] ls emitted hsegs
    (by rw [ho']; exact hall) st1 o1 0 r1 (T ++ []) 0 (fun hm => nomatch hm)
    (by rw [hd, ho']; simp only [List.not_mem_nil, decide_false]; omega)
  have hin : c ∈ emitted := member_introduced cx c segs [] ls emitted hsegs (Or.inr (by rw [ho']; exact hused))
  have hE := hinv' hin
  rw [hd] at hE hfacts
  rw [ho'] at hvs
  simp only [List.not_mem_nil, if_false] at hfacts
  rw [← e']
  refine ⟨E, vs, ?_, hvs, ?_, hfacts.attained⟩
  · rw [imageOf_sym, execK_keeps_count objs _ T st' [] (by omega), hE]; rfl
  · intro mv hmv
    refine ⟨hfacts.ge_all mv hmv, fun hcnt => ?_⟩
    simp only [assignCount_append, hb0] at hcnt
    have hge : 1 ≤ assignCount (d.settings.style.segVramEnd mv.1.name) ls := by
      obtain ⟨zs, _, _, _, _, _, hzs, hz⟩ := Slinky.C03.segments_vram_end objs cx hsy segs [] ls emitted hsegs
        (by rw [ho']; exact hall) st1 o1 0 r1 []
      have hm1 : mv.1 ∈ segs.filter (fun s => shouldEmit cx.o s.cond) := by
        have : mv.1 ∈ vs.map (·.1) := List.mem_map.2 ⟨mv, hmv, rfl⟩
        rw [hvs] at this
        have h2 := List.mem_filter.1 this
        have h3 := of_decide_eq_true h2.2
        exact List.mem_filter.2 ⟨h2.1, by rw [ho']; exact h3.1⟩
      rw [← hzs] at hm1
      obtain ⟨z, hzm, hz1⟩ := List.mem_map.1 hm1
      have := (hz z hzm).2.2.2.2
      rw [hd] at this
      rw [← hz1]; exact this
    rw [imageOf_sym, execK_keeps_count objs _ T st' [] (by omega), hfacts.vals mv hmv (by omega)]; rfl


/-- **`final_class_end` for the main script of partial mode**: over the segments that script is written from
(`C03.partialSegs`: the emitted segments, their file lists replaced by the partial object). -/
theorem final_class_end_partial (objs : List InSec) (d : Document) (o : Opts) (vc : Bool) (out : PartialOut)
    (h : generatePartial d o vc = .ok out)
    (hall : ∀ s ∈ d.segments, shouldEmit o s.cond = true → s.allocSections ≠ [])
    (defsyms : List (Str × Nat)) (folder : Str) (hfolder : d.settings.partialBuildSegmentsFolder = some folder) (c : Str)
    (hused : ∃ s ∈ C03.partialSegs d o folder, s.vramClass = some c)
    (hcount : assignCount (d.settings.style.classEnd c) out.main ≤ endAssigns o c false (C03.partialSegs d o folder)) :
    ∃ (E : Nat) (vs : List (Segment × Nat)),
      (link objs defsyms out.main).sym (d.settings.style.classEnd c) = some E ∧
      vs.map (·.1) = (C03.partialSegs d o folder).filter (fun s => decide (shouldEmit o s.cond = true ∧ s.vramClass = some c)) ∧
      (∀ mv ∈ vs, mv.2 ≤ E ∧ (assignCount (d.settings.style.segVramEnd mv.1.name) out.main ≤ 1 →
          (link objs defsyms out.main).sym (d.settings.style.segVramEnd mv.1.name) = some mv.2)) ∧
      (E = 0 ∨ ∃ mv ∈ vs, E = mv.2) := by
  obtain ⟨folder', ls, emitted, hf', hsegs, hmain⟩ := C03.partial_main_shape d o vc out h
  rw [hfolder] at hf'; injection hf' with hf'; subst hf'
  rw [hmain] at hcount ⊢
  obtain ⟨s, hs, hsc⟩ := hused
  exact class_end_core objs (C03.partialCx d o) rfl vc _ ls emitted _ hsegs (C03.partialSegs_alloc d o folder hall) defsyms c
    ⟨s, hs, C03.partialSegs_emitted d o folder s hs, hsc⟩ hcount

end Slinky.C10
