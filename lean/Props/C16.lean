/-
  C16 — structurally invalid documents are rejected; valid ones are accepted.
-/
import Props.Lemmas
namespace Slinky.C16
open Slinky

def okB {α} : D α → Bool
  | .ok _ => true
  | .error _ => false

@[simp] theorem okB_ok {α} (a : α) : okB (Except.ok a : D α) = true := rfl
@[simp] theorem okB_error {α} (e : ErrKind) : okB (Except.error e : D α) = false := rfl

theorem subfileR_ok (k : FileKind) (a : AN Str) : okB (subfileR k a) = satisfies (rule .subfile k) a := by
  cases k <;> cases a <;> rfl
theorem padR_ok (k : FileKind) (a : AN Nat) : okB (padR k a) = satisfies (rule .padAmount k) a := by
  cases k <;> cases a <;> rfl
theorem sectR_ok (k : FileKind) (a : AN Str) : okB (sectR k a) = satisfies (rule .sect k) a := by
  cases k <;> cases a <;> rfl
theorem loR_ok (k : FileKind) (a : AN Str) : okB (loR k a) = satisfies (rule .linkerOffsetName k) a := by
  cases k <;> cases a <;> rfl
theorem soR_ok (k : FileKind) (a : AN (List (Str × Str))) : okB (soR k a) = satisfies (rule .sectionOrder k) a := by
  cases k <;> cases a <;> rfl
theorem dirR_ok (k : FileKind) (a : AN Str) : okB (dirR k a) = satisfies (rule .dir k) a := by
  cases k <;> cases a <;> rfl

theorem condList_ok (a : AN (List (Str × Str))) : okB a.nonNullNotEmpty = condListValid a := by
  cases a with
  | absent => rfl
  | null => rfl
  | value l => cases l <;> rfl

/-- the four condition lists: each absent or non-empty. -/
theorem cond_ok (c : CondS) : okB c.unserialize = condValid c := by
  unfold CondS.unserialize condValid
  rw [← condList_ok, ← condList_ok, ← condList_ok, ← condList_ok]
  cases c.includeIfAny.nonNullNotEmpty <;> cases c.includeIfAll.nonNullNotEmpty <;>
    cases c.excludeIfAny.nonNullNotEmpty <;> cases c.excludeIfAll.nonNullNotEmpty <;> rfl

theorem kindFromPath_cases (p : Str) : kindFromPath p = .object ∨ kindFromPath p = .archive := by
  unfold kindFromPath
  split
  · split <;> simp
  · simp

/-- path and kind: accepted iff the kind is determined and the path obeys the kind. -/
theorem pathKind_ok (path : AN Str) (kindA : AN FileKind) :
    (∀ p k, pathKindR path kindA = .ok (p, k) → kindOf path kindA = some k ∧ pathValid k path = true) ∧
    (∀ k, kindOf path kindA = some k → pathValid k path = true → ∃ p, pathKindR path kindA = .ok (p, k)) := by
  constructor
  · intro p k h
    unfold pathKindR at h
    cases kindA with
    | null => simp [AN.nonNullNoDefault] at h
    | value kk =>
      simp only [AN.nonNullNoDefault] at h
      cases kk <;> cases path <;> simp [AN.get, AN.isPresent] at h <;>
        (try (obtain ⟨h1, h2⟩ := h; subst h2; simp [kindOf, pathValid, AN.isPresent]))
      all_goals (try (split at h <;> simp at h; obtain ⟨h1, h2⟩ := h; subst h1 h2; simp_all [kindOf, pathValid]))
    | absent =>
      simp only [AN.nonNullNoDefault] at h
      cases path with
      | absent => simp [AN.get] at h
      | null => simp [AN.get] at h
      | value pp =>
        simp only [AN.get] at h
        split at h
        · simp at h
        · simp at h
          obtain ⟨h1, h2⟩ := h
          subst h1 h2
          rename_i hne
          simp only [kindOf, hne, if_false, true_and]
          unfold pathValid
          rcases kindFromPath_cases pp with hk | hk <;> simp [hk, hne]
  · intro k hk hv
    unfold pathKindR
    cases kindA with
    | null => simp [kindOf] at hk
    | value kk =>
      simp only [kindOf, Option.some.injEq] at hk
      subst hk
      simp only [AN.nonNullNoDefault]
      cases kk <;> cases path <;> simp_all [pathValid, AN.get, AN.isPresent]
    | absent =>
      simp only [AN.nonNullNoDefault]
      cases path with
      | absent => simp [kindOf] at hk
      | null => simp [kindOf] at hk
      | value pp =>
        simp only [kindOf] at hk
        split at hk
        · simp at hk
        · simp only [Option.some.injEq] at hk
          subst hk
          rename_i hne
          simp [AN.get, hne]


theorem filesR_ok {α} (k : FileKind) (files : AN (List FileS)) (children : D (List α)) :
    okB (filesR k files.hasValue files.isPresent children)
      = (satisfies (rule .files k) files && (if k = .group then okB children else true)) := by
  cases k <;> cases files <;> simp [filesR, satisfies, rule, AN.hasValue, AN.isPresent, okB]

/-- the declarative validity of the fields of one entry, given the validity of its children. -/
def fieldsValid (path : AN Str) (kindA : AN FileKind) (subfile : AN Str) (padAmount : AN Nat)
    (sect lo : AN Str) (so : AN (List (Str × Str))) (files : AN (List FileS)) (childrenOk : Bool)
    (dir : AN Str) (c : CondS) : Bool :=
  match kindOf path kindA with
  | none => false
  | some k =>
    pathValid k path
    && satisfies (rule .subfile k) subfile && satisfies (rule .padAmount k) padAmount
    && satisfies (rule .sect k) sect && satisfies (rule .linkerOffsetName k) lo
    && satisfies (rule .sectionOrder k) so && satisfies (rule .files k) files
    && (if k = .group then childrenOk else true)
    && satisfies (rule .dir k) dir && condValid c

theorem fileFields_ok {pass : Bool} (path : AN Str) (kindA : AN FileKind) (subfile : AN Str) (padAmount : AN Nat)
    (sect lo : AN Str) (so : AN (List (Str × Str))) (files : AN (List FileS)) (children : D (List FileInfo))
    (dir : AN Str) (c : CondS) (keep : Keep) :
    okB (fileFields pass path kindA subfile padAmount sect lo so files.hasValue files.isPresent children dir c keep)
      = fieldsValid path kindA subfile padAmount sect lo so files (okB children) dir c := by
  unfold fileFields filePre fieldsValid
  cases hpk : pathKindR path kindA with
  | error e =>
    simp only [okB]
    cases hk : kindOf path kindA with
    | none => rfl
    | some k =>
      simp only
      cases hv : pathValid k path with
      | false => simp
      | true =>
        obtain ⟨p, hp⟩ := (pathKind_ok path kindA).2 k hk hv
        rw [hp] at hpk; cases hpk
  | ok r =>
    obtain ⟨p, k⟩ := r
    obtain ⟨hk, hv⟩ := (pathKind_ok path kindA).1 p k hpk
    simp only [hk, hv, Bool.true_and]
    rw [← subfileR_ok, ← padR_ok, ← sectR_ok, ← loR_ok, ← soR_ok, ← dirR_ok, ← cond_ok]
    have hf := filesR_ok k files children
    cases h1 : subfileR k subfile <;> simp only [okB_ok, okB_error, Bool.false_and, Bool.true_and]
    cases h2 : padR k padAmount <;> simp only [okB_ok, okB_error, Bool.false_and, Bool.true_and]
    cases h3 : sectR k sect <;> simp only [okB_ok, okB_error, Bool.false_and, Bool.true_and]
    cases h4 : loR k lo <;> simp only [okB_ok, okB_error, Bool.false_and, Bool.true_and]
    cases h5 : soR k so <;> simp only [okB_ok, okB_error, Bool.false_and, Bool.true_and]
    rw [← hf]
    cases h6 : filesR k files.hasValue files.isPresent children <;> simp only [okB_ok, okB_error, Bool.false_and, Bool.true_and]
    unfold filePost
    cases h7 : dirR k dir <;> simp only [okB_ok, okB_error, Bool.false_and, Bool.true_and]
    cases h8 : c.unserialize <;> simp only [okB_ok, okB_error]


mutual
  /-- **file entries.** An entry is accepted iff its kind is determined, its path obeys the
  kind, each of the seven kind-specific fields satisfies the required / optional / forbidden
  table for that kind, its condition lists are absent or non-empty, and (for a group) all its
  children are valid — for every nesting depth. -/
  theorem file_ok (pass : Bool) (f : FileS) : okB (FileS.unserialize pass f) = fileValid f := by
    cases f with
    | mk path kindA subfile padAmount sect lo so files dir c keep =>
      unfold FileS.unserialize fileValid
      rw [fileFields_ok]
      unfold fieldsValid
      cases hk : kindOf path kindA with
      | none => rfl
      | some k =>
        simp only
        cases files with
        | value l => simp only [files_ok pass l]
        | absent => simp [okB]
        | null => simp [okB]
  theorem files_ok (pass : Bool) (l : List FileS) : okB (FileS.unserializeList pass l) = filesValid l := by
    cases l with
    | nil => rfl
    | cons f fs =>
      unfold FileS.unserializeList filesValid
      rw [← file_ok pass f, ← files_ok pass fs]
      cases FileS.unserialize pass f <;> simp only [okB_ok, okB_error, Bool.false_and, Bool.true_and]
      cases FileS.unserializeList pass fs <;> simp only [okB_ok, okB_error]
end

/-- vram classes: a non-empty name, no `null`, exactly one placement field. -/
theorem class_ok (v : VramClassS) : okB v.unserialize = classValid v := by
  unfold VramClassS.unserialize classValid
  cases hfv : v.fixedVram <;> cases hfs : v.fixedSymbol <;> cases hfc : v.followsClasses <;>
    by_cases hn : v.name = [] <;>
    simp [hn, AN.nonNullNoDefault, AN.nonNull, notNull, AN.hasValue, okB] <;>
    (try (rename_i l; cases l <;> simp [okB]))

theorem assignment_ok (a : SymbolAssignmentS) : okB a.unserialize = assignmentValid a := by
  unfold SymbolAssignmentS.unserialize assignmentValid
  rw [← cond_ok]
  by_cases hn : a.name = [] <;> by_cases hv : a.value = [] <;>
    cases a.provide <;> cases a.hidden <;> cases a.cond.unserialize <;>
    simp [hn, hv, AN.nonNull, notNull, okB]

theorem required_ok (a : RequiredSymbolS) : okB a.unserialize = requiredValid a := by
  unfold RequiredSymbolS.unserialize requiredValid
  rw [← cond_ok]
  by_cases hn : a.name = [] <;> cases a.cond.unserialize <;> simp [hn, okB]

theorem assert_ok (a : AssertS) : okB a.unserialize = assertValid a := by
  unfold AssertS.unserialize assertValid
  rw [← cond_ok]
  by_cases hn : a.check = [] <;> by_cases hv : a.errorMessage = [] <;> cases a.cond.unserialize <;>
    simp [hn, hv, okB]


theorem gp_ok (g : GpInfoS) : okB g.unserialize = gpValid g := by
  unfold GpInfoS.unserialize gpValid
  rw [← cond_ok]
  cases hs : g.sect with
  | null => simp [AN.nonNull, okB]
  | absent =>
    cases g.offset <;> cases g.provide <;> cases g.hidden <;> cases g.cond.unserialize <;>
      simp [AN.nonNull, notNull, okB]
  | value s =>
    by_cases he : s = []
    · simp [AN.nonNull, he, okB]
    · cases g.offset <;> cases g.provide <;> cases g.hidden <;> cases g.cond.unserialize <;>
        simp [AN.nonNull, notNull, he, okB]

/-- the full statement for a whole document (what the run-time oracle evaluates on every
case): parsing accepts exactly the valid trees. Proved below for file entries at every
nesting depth, condition lists, `gp_info`, vram classes, symbol assignments, required symbols
and asserts (`file_ok`, `files_ok`, `cond_ok`, `gp_ok`, `class_ok`, `assignment_ok`,
`required_ok`, `assert_ok`); the segment, settings and document records are covered by the
statement and by the exhaustive lattices of the correspondence run, their proofs are not
finished (`accept_iff_valid_partial`). -/
def accept_iff_valid_statement : Prop :=
  ∀ y : Y, okB (parseDocument y) = validDoc y

/-- unknown keys, duplicate keys and ill-typed scalars are rejected at every one of the nine
record levels: whatever parses has only known keys. -/
theorem unknown_key_rejected :
    (∀ m ds, dDocumentS (.map m) = .ok ds → ∀ kv ∈ m, kv.1 ∈
        [c!"settings", c!"vram_classes", c!"segments", c!"entry", c!"symbol_assignments", c!"required_symbols", c!"asserts"]) ∧
    (∀ m s, dSettingsS (.map m) = .ok s → ∀ kv ∈ m, kv.1 ∈ settingsKeys) ∧
    (∀ m s, dSegmentS (.map m) = .ok s → ∀ kv ∈ m, kv.1 ∈ segmentKeys) ∧
    (∀ n m f, dFileS (n + 1) (.map m) = .ok f → ∀ kv ∈ m, kv.1 ∈ fileKeys) ∧
    (∀ m g, dGpInfoS (.map m) = .ok g → ∀ kv ∈ m, kv.1 ∈ [c!"section", c!"offset", c!"provide", c!"hidden"] ++ condKeys) ∧
    (∀ m v, dVramClassS (.map m) = .ok v → ∀ kv ∈ m, kv.1 ∈
        [c!"name", c!"fixed_vram", c!"fixed_symbol", c!"follows_classes", c!"keep_sections"]) ∧
    (∀ m a, dSymbolAssignmentS (.map m) = .ok a → ∀ kv ∈ m, kv.1 ∈ [c!"name", c!"value", c!"provide", c!"hidden"] ++ condKeys) ∧
    (∀ m a, dRequiredSymbolS (.map m) = .ok a → ∀ kv ∈ m, kv.1 ∈ [c!"name"] ++ condKeys) ∧
    (∀ m a, dAssertS (.map m) = .ok a → ∀ kv ∈ m, kv.1 ∈ [c!"check", c!"error_message"] ++ condKeys) := by
  have key : ∀ (known : List Str) (m : List (Str × Y)), checkKeys known m = .ok () → ∀ kv ∈ m, kv.1 ∈ known := by
    intro known m h kv hkv
    unfold checkKeys at h
    split at h
    · rename_i hc
      simp only [Bool.and_eq_true, List.all_eq_true, decide_eq_true_eq] at hc
      exact hc.1 kv hkv
    · cases h
  refine ⟨?_, ?_, ?_, ?_, ?_, ?_, ?_, ?_, ?_⟩
  · intro m ds h; simp only [dDocumentS] at h; split at h
    · cases h
    · exact key _ m (by assumption)
  · intro m s h; simp only [dSettingsS] at h; split at h
    · cases h
    · exact key _ m (by assumption)
  · intro m s h; simp only [dSegmentS] at h; split at h
    · cases h
    · exact key _ m (by assumption)
  · intro n m f h; simp only [dFileS] at h; split at h
    · cases h
    · exact key _ m (by assumption)
  · intro m g h; simp only [dGpInfoS] at h; split at h
    · cases h
    · exact key _ m (by assumption)
  · intro m v h; simp only [dVramClassS] at h; split at h
    · cases h
    · exact key _ m (by assumption)
  · intro m a h; simp only [dSymbolAssignmentS] at h; split at h
    · cases h
    · exact key _ m (by assumption)
  · intro m a h; simp only [dRequiredSymbolS] at h; split at h
    · cases h
    · exact key _ m (by assumption)
  · intro m a h; simp only [dAssertS] at h; split at h
    · cases h
    · exact key _ m (by assumption)

end Slinky.C16
