/-
  C16 — structurally invalid documents are rejected; valid ones are accepted.
-/
import Props.Lemmas
namespace Slinky.C16
open Slinky

def okB {α} : D α → Bool
  | .ok _ => true
  | .error _ => false

@[simp] theorem okB_ok {α} (a : α) : okB (Except.ok a : D α) = true := rfl
@[simp] theorem okB_error {α} (e : ErrKind) : okB (Except.error e : D α) = false := rfl

theorem subfileR_ok (k : FileKind) (a : AN Str) : okB (subfileR k a) = satisfies (rule .subfile k) a := by
  cases k <;> cases a <;> rfl
theorem padR_ok (k : FileKind) (a : AN Nat) : okB (padR k a) = satisfies (rule .padAmount k) a := by
  cases k <;> cases a <;> rfl
theorem sectR_ok (k : FileKind) (a : AN Str) : okB (sectR k a) = satisfies (rule .sect k) a := by
  cases k <;> cases a <;> rfl
theorem loR_ok (k : FileKind) (a : AN Str) : okB (loR k a) = satisfies (rule .linkerOffsetName k) a := by
  cases k <;> cases a <;> rfl
theorem soR_ok (k : FileKind) (a : AN (List (Str × Str))) : okB (soR k a) = satisfies (rule .sectionOrder k) a := by
  cases k <;> cases a <;> rfl
theorem dirR_ok (k : FileKind) (a : AN Str) : okB (dirR k a) = satisfies (rule .dir k) a := by
  cases k <;> cases a <;> rfl

theorem condList_ok (a : AN (List (Str × Str))) : okB a.nonNullNotEmpty = condListValid a := by
  cases a with
  | absent => rfl
  | null => rfl
  | value l => cases l <;> rfl

/-- the four condition lists: each absent or non-empty. -/
theorem cond_ok (c : CondS) : okB c.unserialize = condValid c := by
  unfold CondS.unserialize condValid
  rw [← condList_ok, ← condList_ok, ← condList_ok, ← condList_ok]
  cases c.includeIfAny.nonNullNotEmpty <;> cases c.includeIfAll.nonNullNotEmpty <;>
    cases c.excludeIfAny.nonNullNotEmpty <;> cases c.excludeIfAll.nonNullNotEmpty <;> rfl

theorem kindFromPath_cases (p : Str) : kindFromPath p = .object ∨ kindFromPath p = .archive := by
  unfold kindFromPath
  split
  · split <;> simp
  · simp

/-- path and kind: accepted iff the kind is determined and the path obeys the kind. -/
theorem pathKind_ok (path : AN Str) (kindA : AN FileKind) :
    (∀ p k, pathKindR path kindA = .ok (p, k) → kindOf path kindA = some k ∧ pathValid k path = true) ∧
    (∀ k, kindOf path kindA = some k → pathValid k path = true → ∃ p, pathKindR path kindA = .ok (p, k)) := by
  constructor
  · intro p k h
    unfold pathKindR at h
    cases kindA with
    | null => simp [AN.nonNullNoDefault] at h
    | value kk =>
      simp only [AN.nonNullNoDefault] at h
      cases kk <;> cases path <;> simp [AN.get, AN.isPresent] at h <;>
        (try (obtain ⟨h1, h2⟩ := h; subst h2; simp [kindOf, pathValid, AN.isPresent]))
      all_goals (try (split at h <;> simp at h; obtain ⟨h1, h2⟩ := h; subst h1 h2; simp_all [kindOf, pathValid]))
    | absent =>
      simp only [AN.nonNullNoDefault] at h
      cases path with
      | absent => simp [AN.get] at h
      | null => simp [AN.get] at h
      | value pp =>
        simp only [AN.get] at h
        split at h
        · simp at h
        · simp at h
          obtain ⟨h1, h2⟩ := h
          subst h1 h2
          rename_i hne
          simp only [kindOf, hne, if_false, true_and]
          unfold pathValid
          rcases kindFromPath_cases pp with hk | hk <;> simp [hk, hne]
  · intro k hk hv
    unfold pathKindR
    cases kindA with
    | null => simp [kindOf] at hk
    | value kk =>
      simp only [kindOf, Option.some.injEq] at hk
      subst hk
      simp only [AN.nonNullNoDefault]
      cases kk <;> cases path <;> simp_all [pathValid, AN.get, AN.isPresent]
    | absent =>
      simp only [AN.nonNullNoDefault]
      cases path with
      | absent => simp [kindOf] at hk
      | null => simp [kindOf] at hk
      | value pp =>
        simp only [kindOf] at hk
        split at hk
        · simp at hk
        · simp only [Option.some.injEq] at hk
          subst hk
          rename_i hne
          simp [AN.get, hne]


theorem filesR_ok {α} (k : FileKind) (files : AN (List FileS)) (children : D (List α)) :
    okB (filesR k files.hasValue files.isPresent children)
      = (satisfies (rule .files k) files && (if k = .group then okB children else true)) := by
  cases k <;> cases files <;> simp [filesR, satisfies, rule, AN.hasValue, AN.isPresent, okB]

/-- the declarative validity of the fields of one entry, given the validity of its children. -/
def fieldsValid (path : AN Str) (kindA : AN FileKind) (subfile : AN Str) (padAmount : AN Nat)
    (sect lo : AN Str) (so : AN (List (Str × Str))) (files : AN (List FileS)) (childrenOk : Bool)
    (dir : AN Str) (c : CondS) : Bool :=
  match kindOf path kindA with
  | none => false
  | some k =>
    pathValid k path
    && satisfies (rule .subfile k) subfile && satisfies (rule .padAmount k) padAmount
    && satisfies (rule .sect k) sect && satisfies (rule .linkerOffsetName k) lo
    && satisfies (rule .sectionOrder k) so && satisfies (rule .files k) files
    && (if k = .group then childrenOk else true)
    && satisfies (rule .dir k) dir && condValid c

theorem fileFields_ok {pass : Bool} (path : AN Str) (kindA : AN FileKind) (subfile : AN Str) (padAmount : AN Nat)
    (sect lo : AN Str) (so : AN (List (Str × Str))) (files : AN (List FileS)) (children : D (List FileInfo))
    (dir : AN Str) (c : CondS) (keep : Keep) :
    okB (fileFields pass path kindA subfile padAmount sect lo so files.hasValue files.isPresent children dir c keep)
      = fieldsValid path kindA subfile padAmount sect lo so files (okB children) dir c := by
  unfold fileFields filePre fieldsValid
  cases hpk : pathKindR path kindA with
  | error e =>
    simp only [okB]
    cases hk : kindOf path kindA with
    | none => rfl
    | some k =>
      simp only
      cases hv : pathValid k path with
      | false => simp
      | true =>
        obtain ⟨p, hp⟩ := (pathKind_ok path kindA).2 k hk hv
        rw [hp] at hpk; cases hpk
  | ok r =>
    obtain ⟨p, k⟩ := r
    obtain ⟨hk, hv⟩ := (pathKind_ok path kindA).1 p k hpk
    simp only [hk, hv, Bool.true_and]
    rw [← subfileR_ok, ← padR_ok, ← sectR_ok, ← loR_ok, ← soR_ok, ← dirR_ok, ← cond_ok]
    have hf := filesR_ok k files children
    cases h1 : subfileR k subfile <;> simp only [okB_ok, okB_error, Bool.false_and, Bool.true_and]
    cases h2 : padR k padAmount <;> simp only [okB_ok, okB_error, Bool.false_and, Bool.true_and]
    cases h3 : sectR k sect <;> simp only [okB_ok, okB_error, Bool.false_and, Bool.true_and]
    cases h4 : loR k lo <;> simp only [okB_ok, okB_error, Bool.false_and, Bool.true_and]
    cases h5 : soR k so <;> simp only [okB_ok, okB_error, Bool.false_and, Bool.true_and]
    rw [← hf]
    cases h6 : filesR k files.hasValue files.isPresent children <;> simp only [okB_ok, okB_error, Bool.false_and, Bool.true_and]
    unfold filePost
    cases h7 : dirR k dir <;> simp only [okB_ok, okB_error, Bool.false_and, Bool.true_and]
    cases h8 : c.unserialize <;> simp only [okB_ok, okB_error]


mutual
  /-- **file entries.** An entry is accepted iff its kind is determined, its path obeys the
  kind, each of the seven kind-specific fields satisfies the required / optional / forbidden
  table for that kind, its condition lists are absent or non-empty, and (for a group) all its
  children are valid — for every nesting depth. -/
  theorem file_ok (pass : Bool) (f : FileS) : okB (FileS.unserialize pass f) = fileValid f := by
    cases f with
    | mk path kindA subfile padAmount sect lo so files dir c keep =>
      unfold FileS.unserialize fileValid
      rw [fileFields_ok]
      unfold fieldsValid
      cases hk : kindOf path kindA with
      | none => rfl
      | some k =>
        simp only
        cases files with
        | value l => simp only [files_ok pass l]
        | absent => simp [okB]
        | null => simp [okB]
  theorem files_ok (pass : Bool) (l : List FileS) : okB (FileS.unserializeList pass l) = filesValid l := by
    cases l with
    | nil => rfl
    | cons f fs =>
      unfold FileS.unserializeList filesValid
      rw [← file_ok pass f, ← files_ok pass fs]
      cases FileS.unserialize pass f <;> simp only [okB_ok, okB_error, Bool.false_and, Bool.true_and]
      cases FileS.unserializeList pass fs <;> simp only [okB_ok, okB_error]
end

/-- vram classes: a non-empty name, no `null`, exactly one placement field. -/
theorem class_ok (v : VramClassS) : okB v.unserialize = classValid v := by
  unfold VramClassS.unserialize classValid
  cases hfv : v.fixedVram <;> cases hfs : v.fixedSymbol <;> cases hfc : v.followsClasses <;>
    by_cases hn : v.name = [] <;>
    simp [hn, AN.nonNullNoDefault, AN.nonNull, notNull, AN.hasValue, okB] <;>
    (try (rename_i l; cases l <;> simp [okB]))

theorem assignment_ok (a : SymbolAssignmentS) : okB a.unserialize = assignmentValid a := by
  unfold SymbolAssignmentS.unserialize assignmentValid
  rw [← cond_ok]
  by_cases hn : a.name = [] <;> by_cases hv : a.value = [] <;>
    cases a.provide <;> cases a.hidden <;> cases a.cond.unserialize <;>
    simp [hn, hv, AN.nonNull, notNull, okB]

theorem required_ok (a : RequiredSymbolS) : okB a.unserialize = requiredValid a := by
  unfold RequiredSymbolS.unserialize requiredValid
  rw [← cond_ok]
  by_cases hn : a.name = [] <;> cases a.cond.unserialize <;> simp [hn, okB]

theorem assert_ok (a : AssertS) : okB a.unserialize = assertValid a := by
  unfold AssertS.unserialize assertValid
  rw [← cond_ok]
  by_cases hn : a.check = [] <;> by_cases hv : a.errorMessage = [] <;> cases a.cond.unserialize <;>
    simp [hn, hv, okB]


theorem gp_ok (g : GpInfoS) : okB g.unserialize = gpValid g := by
  unfold GpInfoS.unserialize gpValid
  rw [← cond_ok]
  cases hs : g.sect with
  | null => simp [AN.nonNull, okB]
  | absent =>
    cases g.offset <;> cases g.provide <;> cases g.hidden <;> cases g.cond.unserialize <;>
      simp [AN.nonNull, notNull, okB]
  | value s =>
    by_cases he : s = []
    · simp [AN.nonNull, he, okB]
    · cases g.offset <;> cases g.provide <;> cases g.hidden <;> cases g.cond.unserialize <;>
        simp [AN.nonNull, notNull, he, okB]

/-! ### segments, settings, the document record -/

def toOpt {α} (a : AN α) : Option α := match a with | .value v => some v | _ => none

theorem nnnd_eq {α} (a : AN α) :
    a.nonNullNoDefault = if notNull a then .ok (toOpt a) else .error .nullValueOnNonNull := by
  cases a <;> rfl

theorem nn_eq {α} (a : AN α) (d : α) :
    a.nonNull d = if notNull a then .ok ((toOpt a).getD d) else .error .nullValueOnNonNull := by
  cases a <;> rfl

theorem hasValue_eq {α} (a : AN α) : a.hasValue = (toOpt a).isSome := by cases a <;> rfl

theorem gpOf_ok (s : SegmentS) :
    okB (gpOf s) = (match s.gpInfo with | .null => false | .absent => true | .value g => gpValid g) ∧
    (∀ gp, gpOf s = .ok gp → gp.isSome = s.gpInfo.hasValue ∧
        (∀ g, gp = some g → ∃ gs, s.gpInfo = .value gs ∧ g.sect = gpSection gs)) := by
  unfold gpOf
  cases hg : s.gpInfo with
  | null => simp [AN.nonNullNoDefault, okB]
  | absent => simp [AN.nonNullNoDefault, okB, AN.hasValue]
  | value g =>
    simp only [AN.nonNullNoDefault]
    rw [← gp_ok]
    cases hu : g.unserialize with
    | error e => simp [okB]
    | ok x =>
      simp only [okB, true_and, AN.hasValue]
      intro gp hgp
      injection hgp with hgp
      subst hgp
      refine ⟨rfl, ?_⟩
      intro g' hg'
      injection hg' with hg'
      subst hg'
      refine ⟨g, rfl, ?_⟩
      unfold GpInfoS.unserialize at hu
      unfold gpSection
      cases hs : g.sect with
      | null => simp [hs, AN.nonNull] at hu
      | absent =>
        simp only [hs, AN.nonNull] at hu
        peel hu
        all_goals first
          | contradiction
          | (injection hu with hu; subst hu; rfl)
      | value sv =>
        simp only [hs, AN.nonNull] at hu
        peel hu
        all_goals first
          | contradiction
          | (injection hu with hu; subst hu; rfl)

theorem resolvedList_eq (a : AN (List Str)) (d : List Str) : (toOpt a).getD d = resolvedList a d := by
  cases a <;> rfl

theorem resolvedSub_eq (a : AN (List (Str × List Str))) (d : List (Str × List Str)) :
    (toOpt a).getD d = resolvedSubgroups a d := by
  cases a <;> rfl

theorem segmentTail_ok (st : Settings) (s : SegmentS) (fv : Option Nat) (fs fol vc : Option Str) (dir : Str)
    (gp : Option GpInfo) :
    okB (segmentTail st s fv fs fol vc dir gp)
      = (condValid s.cond && notNull s.over.allocSections && notNull s.over.noloadSections
          && gpSectionOk gp (resolvedList s.over.allocSections st.allocSections) (resolvedList s.over.noloadSections st.noloadSections)
          && notNull s.over.sectionsStartAlignment && notNull s.over.sectionsEndAlignment
          && notNull s.over.wildcardSections && notNull s.over.sectionsSubgroups
          && !hasSubgroupCycle (resolvedSubgroups s.over.sectionsSubgroups st.sectionsSubgroups)) := by
  unfold segmentTail
  rw [← cond_ok]
  simp only [nn_eq, resolvedList_eq, resolvedSub_eq]
  cases s.cond.unserialize with
  | error e => simp [okB]
  | ok cond =>
    cases notNull s.over.allocSections <;> cases notNull s.over.noloadSections <;>
      simp only [if_true, if_false, Bool.false_eq_true, okB_ok, okB_error, Bool.true_and, Bool.false_and, Bool.and_false] <;>
    cases gpSectionOk gp (resolvedList s.over.allocSections st.allocSections) (resolvedList s.over.noloadSections st.noloadSections) <;>
      simp only [Bool.not_true, Bool.not_false, if_true, if_false, Bool.false_eq_true, okB_error, Bool.true_and, Bool.false_and] <;>
    cases notNull s.over.sectionsStartAlignment <;> cases notNull s.over.sectionsEndAlignment <;>
      cases notNull s.over.wildcardSections <;> cases notNull s.over.sectionsSubgroups <;>
      simp only [if_true, if_false, Bool.false_eq_true, okB_error, Bool.true_and, Bool.false_and, Bool.and_false] <;>
    cases hasSubgroupCycle (resolvedSubgroups s.over.sectionsSubgroups st.sectionsSubgroups) <;>
      simp [okB]

/-- everything of a segment but its name and files: accepted iff no address field is `null`,
at most one is given, `dir` is not `null`, `gp_info` (if written) is valid, not combined with
`hardcoded_gp_value` and names a section of the segment's resolved lists, the condition lists
are valid, none of the six non-nullable overrides is `null`, and the resolved
`sections_subgroups` has no cycle. -/
theorem segmentRest_ok (st : Settings) (s : SegmentS) : okB (segmentRest st s) = restValid st s := by
  have hgp := gpOf_ok s
  unfold segmentRest restValid
  simp only [nnnd_eq, nn_eq, hasValue_eq] at *
  cases h1 : notNull s.fixedVram <;> cases h2 : notNull s.fixedSymbol <;> cases h3 : notNull s.followsSegment <;>
    cases h4 : notNull s.vramClass <;> simp only [if_true, if_false, Bool.false_eq_true, okB_error, Bool.false_and, Bool.and_false, Bool.true_and]
  cases h5 : atMostOne [(toOpt s.fixedVram).isSome, (toOpt s.fixedSymbol).isSome, (toOpt s.followsSegment).isSome,
      (toOpt s.vramClass).isSome] <;>
    simp only [Bool.not_false, Bool.not_true, if_true, if_false, Bool.false_eq_true, okB_error, Bool.false_and, Bool.true_and]
  cases h6 : notNull s.dir <;> simp only [if_true, if_false, Bool.false_eq_true, okB_error, Bool.false_and, Bool.true_and]
  cases hgi : s.gpInfo with
  | null =>
    have h0 := hgp.1
    simp only [hgi] at h0
    cases hg : gpOf s with
    | error e => simp [okB]
    | ok gp => simp [hg, okB] at h0
  | absent =>
    have h0 := hgp.1
    simp only [hgi] at h0
    cases hg : gpOf s with
    | error e => simp [hg, okB] at h0
    | ok gp =>
      obtain ⟨hsome, _⟩ := hgp.2 gp hg
      simp only [hgi, toOpt, Option.isSome_none] at hsome
      have hnone : gp = none := by cases gp <;> simp_all
      subst hnone
      simp only [Option.isSome_none, Bool.false_and, Bool.false_eq_true, if_false, segmentTail_ok, gpSectionOk,
        Bool.true_and, Bool.and_true]
  | value gs =>
    have h0 := hgp.1
    simp only [hgi] at h0
    cases hg : gpOf s with
    | error e =>
      rw [hg] at h0
      simp only [okB_error] at h0
      simp only [okB_error, ← h0, Bool.false_and]
    | ok gp =>
      rw [hg] at h0
      simp only [okB_ok] at h0
      obtain ⟨hsome, hsect⟩ := hgp.2 gp hg
      simp only [hgi, toOpt, Option.isSome_some] at hsome
      cases gp with
      | none => simp at hsome
      | some g =>
        obtain ⟨gs', hgs', hse⟩ := hsect g rfl
        rw [hgi] at hgs'
        injection hgs' with hgs'
        subst hgs'
        simp only [Option.isSome_some, Bool.true_and, ← h0]
        cases hh : st.hardcodedGpValue with
        | some v => simp [okB]
        | none =>
          simp only [Option.isSome_none, Bool.false_eq_true, if_false, segmentTail_ok, gpSectionOk, hse,
            Option.isNone_none, Bool.and_true, Bool.true_and]
          cases condValid s.cond <;> cases notNull s.over.allocSections <;> cases notNull s.over.noloadSections <;>
            simp

/-- **segments.** -/
theorem segment_ok (pass : Bool) (st : Settings) (s : SegmentS) :
    okB (SegmentS.unserialize pass st s) = segmentValid st s := by
  unfold SegmentS.unserialize segmentValid
  rw [← files_ok pass, ← segmentRest_ok]
  by_cases hn : s.name = []
  · simp [hn, okB]
  · simp only [hn, if_false, ne_eq, not_false_eq_true, decide_true, Bool.true_and]
    cases he : s.files.isEmpty
    · simp only [Bool.false_eq_true, if_false, Bool.not_false, Bool.true_and]
      cases FileS.unserializeList pass s.files with
      | error e => simp [okB]
      | ok files =>
        cases segmentRest st s with
        | error e => simp [okB]
        | ok seg => simp [okB]
    · simp [okB]

/-- **settings.** -/
theorem settings_ok (s : SettingsS) : okB s.unserialize = settingsValid s := by
  unfold SettingsS.unserialize settingsValid
  simp only [nn_eq, hasValue_eq]
  cases notNull s.basePath <;> cases notNull s.style <;>
    simp only [if_true, if_false, Bool.false_eq_true, okB_error, Bool.true_and, Bool.false_and] <;>
  cases notNull s.symbolsHeaderType <;> cases notNull s.symbolsHeaderAsArray <;> cases notNull s.sectionsAllowlist <;>
    cases notNull s.sectionsAllowlistExtra <;> cases notNull s.sectionsDenylist <;>
    cases notNull s.discardWildcardSection <;> cases notNull s.singleSegmentMode <;>
    simp only [if_true, if_false, Bool.false_eq_true, okB_error, Bool.true_and, Bool.false_and, Bool.and_false] <;>
  cases hd : s.dPath <;> cases ht : s.targetPath <;>
    simp only [AN.optionalNullable, toOpt, Option.isSome_some, Option.isSome_none, Option.isNone_some, Option.isNone_none,
      Bool.and_true, Bool.and_false, Bool.false_eq_true, if_true, if_false, Bool.not_true, Bool.not_false, Bool.true_or,
      Bool.or_true, Bool.or_false, Bool.false_or, okB_error, Bool.true_and, Bool.false_and] <;>
  cases notNull s.over.allocSections <;> cases notNull s.over.noloadSections <;>
    cases notNull s.over.sectionsStartAlignment <;> cases notNull s.over.sectionsEndAlignment <;>
    cases notNull s.over.wildcardSections <;> cases notNull s.over.sectionsSubgroups <;>
    simp [okB]

theorem okB_mapE {α β} (f : α → D β) (l : List α) : okB (mapE f l) = l.all (fun a => okB (f a)) := by
  induction l with
  | nil => rfl
  | cons a as ih =>
    unfold mapE
    cases h : f a with
    | error e => simp [h]
    | ok x =>
      cases h2 : mapE f as with
      | error e => rw [h2] at ih; simp [h, ← ih]
      | ok ys => rw [h2] at ih; simp [h, ← ih]

theorem listValid_ok {α β} (a : AN (List α)) (f : α → D β) (p : α → Bool) (hp : ∀ x, okB (f x) = p x) :
    okB (match a.nonNull [] with
         | .error e => (.error e : D (List β))
         | .ok l => mapE f l) = listValid a p := by
  cases a with
  | absent => simp [AN.nonNull, listValid, mapE, okB]
  | null => simp [AN.nonNull, listValid, okB]
  | value l =>
    simp only [AN.nonNull, listValid, okB_mapE]
    congr 1
    funext x
    exact hp x

theorem documentPost_ok (d : DocumentS) :
    okB (documentPost d) = (notNull d.entry && listValid d.symbolAssignments assignmentValid
      && listValid d.requiredSymbols requiredValid && listValid d.asserts assertValid) := by
  unfold documentPost
  rw [← listValid_ok d.symbolAssignments SymbolAssignmentS.unserialize assignmentValid assignment_ok,
      ← listValid_ok d.requiredSymbols RequiredSymbolS.unserialize requiredValid required_ok,
      ← listValid_ok d.asserts AssertS.unserialize assertValid assert_ok]
  cases d.entry <;> simp only [AN.nonNullNoDefault, notNull, okB_error, Bool.false_and, Bool.true_and] <;>
  cases d.symbolAssignments.nonNull [] <;> simp only [okB_error, Bool.false_and] <;>
  (rename_i sas; cases mapE SymbolAssignmentS.unserialize sas <;> simp only [okB_error, okB_ok, Bool.false_and, Bool.true_and]) <;>
  cases d.requiredSymbols.nonNull [] <;> simp only [okB_error, Bool.false_and] <;>
  (rename_i rss; cases mapE RequiredSymbolS.unserialize rss <;> simp only [okB_error, okB_ok, Bool.false_and, Bool.true_and]) <;>
  cases d.asserts.nonNull [] <;> simp only [okB_error] <;>
  (rename_i ass; cases mapE AssertS.unserialize ass <;> simp only [okB_error, okB_ok])

theorem documentPre_ok (d : DocumentS) :
    okB (documentPre d) = (settingsPartValid d
      && !d.segments.isEmpty && listValid d.vramClasses classValid) ∧
    (∀ r, documentPre d = .ok r → settingsOf d = some r.1) := by
  unfold documentPre settingsOf settingsPartValid
  rw [← listValid_ok d.vramClasses VramClassS.unserialize classValid class_ok]
  cases hs : d.settings with
  | null => simp [AN.nonNullNoDefault, okB]
  | absent =>
    simp only [AN.nonNullNoDefault]
    cases d.segments.isEmpty
    · simp only [Bool.false_eq_true, if_false, Bool.not_false, Bool.true_and]
      cases d.vramClasses.nonNull [] with
      | error e => simp [okB]
      | ok vcs =>
        cases hm : mapE VramClassS.unserialize vcs with
        | error e => simp [okB, hm]
        | ok cl => simp [okB, hm]
    · simp [okB]
  | value sv =>
    simp only [AN.nonNullNoDefault]
    rw [← settings_ok]
    cases hu : sv.unserialize with
    | error e => simp [okB]
    | ok st =>
      simp only [okB_ok, Bool.true_and]
      cases d.segments.isEmpty
      · simp only [Bool.false_eq_true, if_false, Bool.not_false, Bool.true_and]
        cases d.vramClasses.nonNull [] with
        | error e => simp [okB]
        | ok vcs =>
          cases hm : mapE VramClassS.unserialize vcs with
          | error e => simp [okB, hm]
          | ok cl => simp [okB, hm]
      · simp [okB]

/-- **the document record.** -/
theorem document_ok (pass : Bool) (d : DocumentS) : okB (d.unserialize pass) = documentValid d := by
  unfold DocumentS.unserialize documentValid
  obtain ⟨hpre, hst⟩ := documentPre_ok d
  have hpost := documentPost_ok d
  cases hp : documentPre d with
  | error e =>
    rw [hp] at hpre
    simp only [okB_error] at hpre
    simp only [okB_error]
    -- the three conjuncts that `documentPre` decides are not all true
    cases h1 : settingsPartValid d <;>
      cases h2 : d.segments.isEmpty <;> cases h3 : listValid d.vramClasses classValid <;>
      simp_all
  | ok r =>
    obtain ⟨st, classes⟩ := r
    rw [hp] at hpre
    simp only [okB_ok] at hpre
    have hso := hst _ hp
    simp only at hso
    simp only [hso]
    have h123 : settingsPartValid d = true ∧
        d.segments.isEmpty = false ∧ listValid d.vramClasses classValid = true := by
      cases h1 : settingsPartValid d <;>
        cases h2 : d.segments.isEmpty <;> cases h3 : listValid d.vramClasses classValid <;> simp_all
    simp only [h123.1, h123.2.1, h123.2.2, Bool.not_false, Bool.true_and]
    have hsegs : okB (mapE (SegmentS.unserialize pass st) d.segments) = d.segments.all (segmentValid st) := by
      rw [okB_mapE]
      congr 1
      funext x
      exact segment_ok pass st x
    rw [← hsegs]
    cases mapE (SegmentS.unserialize pass st) d.segments with
    | error e => simp [okB]
    | ok segs =>
      simp only [okB_ok, Bool.true_and]
      simp only [Bool.and_assoc] at hpost ⊢
      rw [← hpost]
      cases documentPost d with
      | error e => simp [okB]
      | ok r2 => obtain ⟨a, b, c, e⟩ := r2; simp [okB]

/-- **C16: a document is accepted iff it is valid**, for every canonical value tree: parsing
succeeds exactly when the tree is well typed for the records (only known keys, no duplicate
keys, scalar types, no `null` for the required strings) and every record satisfies its
declarative table — file entries at every depth, condition lists, `gp_info`, segments
(at most one address field, `gp_info` rules, no cyclic sub-groups), vram classes (exactly one
placement), settings (`d_path` needs `target_path`, no `null` on non-nullable settings), the
top-level lists, a non-empty `segments` list. -/
theorem accept_iff_valid (y : Y) : okB (parseDocument y) = validDoc y := by
  unfold parseDocument validDoc
  cases dDocumentS y with
  | error e => rfl
  | ok ds => exact document_ok true ds

/-- unknown keys, duplicate keys and ill-typed scalars are rejected at every one of the nine
record levels: whatever parses has only known keys. -/
theorem unknown_key_rejected :
    (∀ m ds, dDocumentS (.map m) = .ok ds → ∀ kv ∈ m, kv.1 ∈
        [c!"settings", c!"vram_classes", c!"segments", c!"entry", c!"symbol_assignments", c!"required_symbols", c!"asserts"]) ∧
    (∀ m s, dSettingsS (.map m) = .ok s → ∀ kv ∈ m, kv.1 ∈ settingsKeys) ∧
    (∀ m s, dSegmentS (.map m) = .ok s → ∀ kv ∈ m, kv.1 ∈ segmentKeys) ∧
    (∀ n m f, dFileS (n + 1) (.map m) = .ok f → ∀ kv ∈ m, kv.1 ∈ fileKeys) ∧
    (∀ m g, dGpInfoS (.map m) = .ok g → ∀ kv ∈ m, kv.1 ∈ [c!"section", c!"offset", c!"provide", c!"hidden"] ++ condKeys) ∧
    (∀ m v, dVramClassS (.map m) = .ok v → ∀ kv ∈ m, kv.1 ∈
        [c!"name", c!"fixed_vram", c!"fixed_symbol", c!"follows_classes", c!"keep_sections"]) ∧
    (∀ m a, dSymbolAssignmentS (.map m) = .ok a → ∀ kv ∈ m, kv.1 ∈ [c!"name", c!"value", c!"provide", c!"hidden"] ++ condKeys) ∧
    (∀ m a, dRequiredSymbolS (.map m) = .ok a → ∀ kv ∈ m, kv.1 ∈ [c!"name"] ++ condKeys) ∧
    (∀ m a, dAssertS (.map m) = .ok a → ∀ kv ∈ m, kv.1 ∈ [c!"check", c!"error_message"] ++ condKeys) := by
  have key : ∀ (known : List Str) (m : List (Str × Y)), checkKeys known m = .ok () → ∀ kv ∈ m, kv.1 ∈ known := by
    intro known m h kv hkv
    unfold checkKeys at h
    split at h
    · rename_i hc
      simp only [Bool.and_eq_true, List.all_eq_true, decide_eq_true_eq] at hc
      exact hc.1 kv hkv
    · cases h
  refine ⟨?_, ?_, ?_, ?_, ?_, ?_, ?_, ?_, ?_⟩
  · intro m ds h; simp only [dDocumentS] at h; split at h
    · cases h
    · exact key _ m (by assumption)
  · intro m s h; simp only [dSettingsS] at h; split at h
    · cases h
    · exact key _ m (by assumption)
  · intro m s h; simp only [dSegmentS] at h; split at h
    · cases h
    · exact key _ m (by assumption)
  · intro n m f h; simp only [dFileS] at h; split at h
    · cases h
    · exact key _ m (by assumption)
  · intro m g h; simp only [dGpInfoS] at h; split at h
    · cases h
    · exact key _ m (by assumption)
  · intro m v h; simp only [dVramClassS] at h; split at h
    · cases h
    · exact key _ m (by assumption)
  · intro m a h; simp only [dSymbolAssignmentS] at h; split at h
    · cases h
    · exact key _ m (by assumption)
  · intro m a h; simp only [dRequiredSymbolS] at h; split at h
    · cases h
    · exact key _ m (by assumption)
  · intro m a h; simp only [dAssertS] at h; split at h
    · cases h
    · exact key _ m (by assumption)

end Slinky.C16
