/-
  C01 / C02 / C12 at the level of the whole script: the input statements of the segment part of
  an ordinary (or main) script are, in this order, those the per-group emitter returns — for the
  emitted segments in document order, the allocatable groups then the noload groups in list
  order.  Nothing else in the segment part is an input statement, and every one of them sits
  inside an output section of its segment (`C11.blockInputs_addSegments`).  With the per-entry
  theorems of `Props/C01Sub.lean` this is "every listed input section is placed exactly once;
  nothing unlisted is placed" for the script as a whole, up to entries that name the same path.
-/
import Props.C11Gen
namespace Slinky.C01
open Slinky W C11

/-- the lines of a result, nothing for an error. -/
def linesOf : R (List Line) → List Line
  | .ok l => l
  | .error _ => []

theorem mapE_linesOf (f : Str → R (List Line)) : ∀ (l : List Str) (bs : List (List Line)), mapE f l = .ok bs →
    bs = l.map fun a => linesOf (f a) := by
  intro l
  induction l with
  | nil => intro bs h; simp [mapE] at h; subst h; rfl
  | cons a as ih =>
    intro bs h
    unfold mapE at h
    split at h
    · contradiction
    · rename_i x hx
      split at h
      · contradiction
      · rename_i xs hxs
        injection h with h
        subst h
        simp only [List.map_cons, hx, linesOf, ih xs hxs]

/-- the statements of one segment: its allocatable groups, then its noload groups. -/
def segmentStatements (cx : Ctx) (seg : Segment) : List Line :=
  (seg.allocSections.flatMap fun sec => linesOf (emitSection cx seg sec seg.allocSections))
  ++ (seg.noloadSections.flatMap fun sec => linesOf (emitSection cx seg sec seg.noloadSections))

/-- **the input statements of a script, all of them, in order.** -/
theorem script_input_statements (cx : Ctx) : ∀ (l : List Segment) (em : List Str) (ls : List Line) (em' : List Str),
    addSegments cx em l = .ok (ls, em') →
    ls.filter isInputB
      = ((l.filter fun seg => shouldEmit cx.o seg.cond).flatMap fun seg => segmentStatements cx seg).filter isInputB := by
  intro l
  induction l with
  | nil => intro em ls em' h; simp [addSegments] at h; obtain ⟨rfl, _⟩ := h; rfl
  | cons seg rest ih =>
    intro em ls em' h
    unfold addSegments at h
    split at h
    · contradiction
    · rename_i x e1 hx
      split at h
      · contradiction
      · rename_i y e2 hy
        injection h with h
        simp only [Prod.mk.injEq] at h
        rw [← h.1, List.filter_append, ih e1 y e2 hy]
        by_cases hinc : shouldEmit cx.o seg.cond = true
        · obtain ⟨ba, bn, hba, hbn, hf⟩ := inputs_addSegment cx em seg x e1 hx hinc
          have ea := mapE_linesOf _ _ _ hba
          have en := mapE_linesOf _ _ _ hbn
          simp only [List.filter_cons, hinc, if_true, List.flatMap_cons, List.filter_append, hf, List.flatten_append]
          congr 1
          unfold segmentStatements
          rw [ea, en]
          simp only [List.filter_append, List.flatMap_def]
        · have hf : shouldEmit cx.o seg.cond = false := by
            cases hh : shouldEmit cx.o seg.cond
            · rfl
            · exact absurd hh hinc
          have hx' := excluded_addSegment cx em seg hf
          rw [hx'] at hx
          injection hx with hx
          simp only [Prod.mk.injEq] at hx
          rw [← hx.1]
          simp [List.filter_cons, hf]

end Slinky.C01
