/-
  Driver — line protocol between ./check and the executable Lean model.
  One JSON request per line on stdin, one JSON answer per line on stdout.
  Imports the model (core Lean only) plus `Lean.Data.Json`, so it links as a `lean_exe`.
-/
import Lean.Data.Json
import Slinkyv
open Lean Slinky

def s2t (s : String) : Str := s.toList
def t2s (t : Str) : String := String.ofList t

/-- protocol tree → canonical YAML tree. Objects are `{"$m": [[k, v], …]}` (ordered, may
repeat keys) or plain JSON objects; floats are `{"$f": "text"}`. -/
instance : Inhabited Y := ⟨.null⟩

partial def toY (j : Json) : Y :=
  match j with
  | .null => .null
  | .bool b => .bool b
  | .num n => if n.exponent == 0 then .int n.mantissa else .float (s2t (toString n))
  | .str s => .str (s2t s)
  | .arr a => .seq (a.toList.map toY)
  | .obj o =>
    match o.get? "$m" with
    | some (.arr pairs) =>
      .map (pairs.toList.filterMap fun p =>
        match p with
        | .arr #[.str k, v] => some (s2t k, toY v)
        | _ => none)
    | _ =>
      match o.get? "$f" with
      | some (.str f) => .float (s2t f)
      | _ => .map (o.toList.map fun (k, v) => (s2t k, toY v))

def getStr (j : Json) (k : String) : String := (j.getObjValAs? String k).toOption.getD ""
def getBool (j : Json) (k : String) (d : Bool) : Bool := (j.getObjValAs? Bool k).toOption.getD d

def getOpts (j : Json) : Opts :=
  match j.getObjVal? "opts" with
  | .ok (.arr a) => a.toList.filterMap fun p =>
      match p with
      | .arr #[.str k, .str v] => some (s2t k, s2t v)
      | _ => none
  | _ => []

def errName : ErrKind → String
  | .failedYamlParsing => "FailedYamlParsing"
  | .nullValueOnNonNull => "NullValueOnNonNull"
  | .emptyValue => "EmptyValue"
  | .invalidFieldCombo => "InvalidFieldCombo"
  | .missingRequiredField => "MissingRequiredField"
  | .missingRequiredFieldCombo => "MissingRequiredFieldCombo"
  | .missingAnyOfOptionalFields => "MissingAnyOfOptionalFields"
  | .customOptionInPathNotProvided => "CustomOptionInPathNotProvided"
  | .missingSectionForSegment => "MissingSectionForSegment"
  | .missingVramClassForSegment => "MissingVramClassForSegment"
  | .invalidSegmentCount => "InvalidSegmentCountForSingleSegmentMode"
  | .cyclicSubgroups => "CyclicSectionsSubgroups"

def jstr (t : Str) : Json := .str (t2s t)
def jb (b : Bool) : Json := .bool b
def js (s : String) : Json := .str s

def handle (req : Json) : Json :=
  let c := (req.getObjVal? "case").toOption.getD .null
  let impl := (req.getObjVal? "impl").toOption.getD .null
  let id := (c.getObjVal? "id").toOption.getD .null
  let y := toY ((c.getObjVal? "doc").toOption.getD .null)
  let opts := getOpts c
  let mode : Mode := if getStr c "mode" == "partial" then .partialLink else .normal
  let vc := getBool c "version_comment" false
  let base : List (String × Json) := [("id", id)]
  let implOutcome := getStr impl "outcome"
  match parseDocument y with
  | .error e =>
    Json.mkObj (base ++ [("model_outcome", js "err"), ("model_stage", js "parse"), ("model_err", js (errName e)),
      ("outcome_agree", jb (implOutcome == "err")),
      ("errkind_agree", jb (getStr impl "err_kind" == errName e))])
  | .ok d =>
    match generate d opts mode vc with
    | .error (.err e) =>
      Json.mkObj (base ++ [("model_outcome", js "err"), ("model_stage", js "generate"), ("model_err", js (errName e)),
        ("outcome_agree", jb (implOutcome == "err")),
        ("errkind_agree", jb (getStr impl "err_kind" == errName e))])
    | .error .diverge =>
      Json.mkObj (base ++ [("model_outcome", js "diverge"), ("outcome_agree", jb false)])
    | .ok out =>
      let iScript := s2t (getStr impl "script")
      let iJoined := s2t (getStr impl "joined")
      let iHeader := s2t (getStr impl "header")
      let iDeps : Option Str := match impl.getObjVal? "deps" with
        | .ok (.str s) => some (s2t s)
        | _ => none
      let iSyms : List Str := match impl.getObjVal? "symbols" with
        | .ok (.arr a) => a.toList.filterMap fun x => match x with | .str s => some (s2t s) | _ => none
        | _ => []
      let iPartials : List (Str × Str) := match impl.getObjVal? "partials" with
        | .ok (.arr a) => a.toList.filterMap fun x => match x with
            | .arr #[.str n, .str s] => some (s2t n, s2t s) | _ => none
        | _ => []
      let agree : List (String × Bool) :=
        [("script", out.script == iScript), ("joined", out.joined == iJoined),
         ("header", out.header == iHeader), ("deps", out.deps == iDeps),
         ("symbols", out.symbols == iSyms), ("partials", out.partials == iPartials)]
      let all := implOutcome == "ok" && agree.all (·.2)
      Json.mkObj (base ++ [("model_outcome", js "ok"), ("outcome_agree", jb (implOutcome == "ok")),
        ("full_equal", jb all),
        ("agree", Json.mkObj (agree.map fun (k, b) => (k, Json.bool b)))]
        ++ (if all then [] else
             [("model", Json.mkObj [("script", jstr out.script), ("header", jstr out.header),
               ("deps", match out.deps with | some d => jstr d | none => .null),
               ("symbols", Json.arr (out.symbols.map jstr).toArray),
               ("partials", Json.arr (out.partials.map fun (n, s) => Json.arr #[jstr n, jstr s]).toArray)])]))

partial def loop (h : IO.FS.Stream) (out : IO.FS.Stream) : IO Unit := do
  let line ← h.getLine
  if line.isEmpty then return ()
  let ans := match Json.parse line with
    | .ok j => handle j
    | .error e => Json.mkObj [("bad_request", js e)]
  out.putStrLn ans.compress
  out.flush
  loop h out

def main : IO Unit := do
  loop (← IO.getStdin) (← IO.getStdout)
