/-
  Driver — line protocol between ./check and the executable Lean model.
  One JSON request per line on stdin, one JSON answer per line on stdout.
  Imports the model (core Lean only) plus `Lean.Data.Json`, so it links as a `lean_exe`.

  ops:  check (default)  case + impl  → correspondence and per-property verdicts
        prune            case         → the document with every excluded entry deleted (C06)
        eqmod            a, b         → equality of two output bundles up to blank lines
-/
import Lean.Data.Json
import Slinkyv
open Lean Slinky

def s2t (s : String) : Str := s.toList
def t2s (t : Str) : String := String.ofList t

instance : Inhabited Y := ⟨.null⟩

/-- protocol tree → canonical YAML tree. Objects are `{"$m": [[k, v], …]}` (ordered, may
repeat keys) or plain JSON objects; floats are `{"$f": "text"}`. -/
partial def toY (j : Json) : Y :=
  match j with
  | .null => .null
  | .bool b => .bool b
  | .num n => if n.exponent == 0 then .int n.mantissa else .float (s2t (toString n))
  | .str s => .str (s2t s)
  | .arr a => .seq (a.toList.map toY)
  | .obj o =>
    match o.get? "$m" with
    | some (.arr pairs) =>
      .map (pairs.toList.filterMap fun p =>
        match p with
        | .arr #[.str k, v] => some (s2t k, toY v)
        | _ => none)
    | _ =>
      match o.get? "$f" with
      | some (.str f) => .float (s2t f)
      | _ => .map (o.toList.map fun (k, v) => (s2t k, toY v))

partial def ofY (y : Y) : Json :=
  match y with
  | .null => .null
  | .bool b => .bool b
  | .int i => .num ⟨i, 0⟩
  | .float r => Json.mkObj [("$f", .str (t2s r))]
  | .str s => .str (t2s s)
  | .seq l => .arr (l.map ofY).toArray
  | .map m => Json.mkObj [("$m", .arr (m.map fun (k, v) => Json.arr #[.str (t2s k), ofY v]).toArray)]

def getStr (j : Json) (k : String) : String := (j.getObjValAs? String k).toOption.getD ""
def getBool (j : Json) (k : String) (d : Bool) : Bool := (j.getObjValAs? Bool k).toOption.getD d
def getObj (j : Json) (k : String) : Json := (j.getObjVal? k).toOption.getD .null

def getOpts (j : Json) : Opts :=
  optsOfList (match j.getObjVal? "opts" with
  | .ok (.arr a) => a.toList.filterMap fun p =>
      match p with
      | .arr #[.str k, .str v] => some (s2t k, s2t v)
      | _ => none
  | _ => [])

def getStrList (j : Json) (k : String) : List String :=
  match j.getObjVal? k with
  | .ok (.arr a) => a.toList.filterMap fun x => match x with | .str s => some s | _ => none
  | _ => []

def errName : ErrKind → String
  | .failedYamlParsing => "FailedYamlParsing"
  | .nullValueOnNonNull => "NullValueOnNonNull"
  | .emptyValue => "EmptyValue"
  | .invalidFieldCombo => "InvalidFieldCombo"
  | .missingRequiredField => "MissingRequiredField"
  | .missingRequiredFieldCombo => "MissingRequiredFieldCombo"
  | .missingAnyOfOptionalFields => "MissingAnyOfOptionalFields"
  | .customOptionInPathNotProvided => "CustomOptionInPathNotProvided"
  | .missingSectionForSegment => "MissingSectionForSegment"
  | .missingVramClassForSegment => "MissingVramClassForSegment"
  | .invalidSegmentCount => "InvalidSegmentCountForSingleSegmentMode"
  | .cyclicSubgroups => "CyclicSectionsSubgroups"

def jstr (t : Str) : Json := .str (t2s t)
def jb (b : Bool) : Json := .bool b
def js (s : String) : Json := .str s
def jstrs (l : List Str) : Json := .arr (l.map jstr).toArray

/-- the implementation's observation, from the harness answer. -/
def obsOfImpl (impl : Json) : Obs :=
  let deps : Option Str := match impl.getObjVal? "deps" with
    | .ok (.str s) => some (s2t s)
    | _ => none
  let syms : List Str := (getStrList impl "symbols").map s2t
  let partials : List (Str × Str) := match impl.getObjVal? "partials" with
    | .ok (.arr a) => a.toList.filterMap fun x => match x with
        | .arr #[.str n, .str s] => some (s2t n, s2t s) | _ => none
    | _ => []
  Obs.ofTexts (s2t (getStr impl "script")) (s2t (getStr impl "joined")) (s2t (getStr impl "header"))
    deps syms partials

def firstDiff (a b : List Str) : String :=
  let rec go (i : Nat) : List Str → List Str → String
    | [], [] => ""
    | x :: xs, y :: ys => if x = y then go (i + 1) xs ys else s!"@{i}: impl `{t2s x}` vs model `{t2s y}`"
    | x :: _, [] => s!"@{i}: impl `{t2s x}` vs model <end>"
    | [], y :: _ => s!"@{i}: impl <end> vs model `{t2s y}`"
  go 0 a b

def verdictJson (v : Verdict) : Json :=
  Json.mkObj [("holds_impl", jb v.holdsImpl), ("holds_model", jb v.holdsModel),
    ("proj_equal", jb v.projEqual), ("domain", jb v.domain), ("why", js v.why)]

def projVerdict (holdsI holdsM : Bool) (pi pm : List Str) (domain : Bool := true) : Verdict :=
  { holdsImpl := holdsI, holdsModel := holdsM, projEqual := pi == pm, domain := domain,
    why := if pi == pm then "" else firstDiff pi pm }

/-- observation of the model run on a *specification variant* of the document. -/
def specObs (dspec : D Document) (o : Opts) (m : Mode) (vc : Bool) : Option Obs :=
  match dspec with
  | .error _ => none
  | .ok d => match generate d o m vc with
    | .ok out => some (Obs.ofOutputs out)
    | .error _ => none

/-- per-property verdicts for a successful generation on both sides. -/
def evalProp (p : String) (y : Y) (d : Document) (o : Opts) (m : Mode) (vc : Bool) (oi om : Obs) : Option Verdict :=
  match p with
  | "C07" =>
    match generate d o m vc C07.escapePathSpec with
    | .ok out =>
      let os := Obs.ofOutputs out
      some (projVerdict (C07.pathsOf oi == C07.pathsOf os) (C07.pathsOf om == C07.pathsOf os) (C07.pathsOf oi) (C07.pathsOf om))
    | .error _ => some { holdsImpl := false, holdsModel := false, projEqual := C07.pathsOf oi == C07.pathsOf om,
                         why := "the declarative expansion fails where the implementation succeeded" }
  | "C08" => some (projVerdict true true (C08.proj oi) (C08.proj om))
  | "C14" =>
    match specObs (C14.specParse y) o m vc with
    | some os => some (projVerdict (C14.proj oi == C14.proj os) (C14.proj om == C14.proj os) (C14.proj oi) (C14.proj om))
    | none => some { holdsImpl := false, holdsModel := false, projEqual := C14.proj oi == C14.proj om, why := "spec variant did not generate" }
  | "C06" => some (projVerdict true true (C06m.proj oi) (C06m.proj om))
  | "C17" => some (projVerdict (C17.holds d o m oi) (C17.holds d o m om) (C17.proj oi) (C17.proj om))
  | "C18" => some (projVerdict (C18.holds d oi) (C18.holds d om) (C18.proj oi) (C18.proj om))
  | "C01" =>
    let hi := C01.holds d o m oi
    let hm := C01.holds d o m om
    let pi := Layout.proj p oi
    let pm := Layout.proj p om
    some { holdsImpl := hi.1, holdsModel := hm.1, projEqual := pi == pm, domain := hi.2.1,
           why := if !hi.1 then hi.2.2 else if pi == pm then "" else firstDiff pi pm }
  | "C02" =>
    let hi := C02.holds d o m oi
    let hm := C02.holds d o m om
    let pi := Layout.proj p oi
    let pm := Layout.proj p om
    some { holdsImpl := hi.1, holdsModel := hm.1, projEqual := pi == pm, domain := (C01.holds d o m oi).2.1,
           why := if !hi.1 then hi.2 else if pi == pm then "" else firstDiff pi pm }
  | "C03" | "C04" | "C05" | "C09" | "C10" =>
    some (projVerdict true true (Layout.proj p oi) (Layout.proj p om))
  | "C12" => some (projVerdict (C12.holds d o oi) (C12.holds d o om) (C12.proj oi) (C12.proj om))
  | "C13" => some (projVerdict (C13.holds d oi) (C13.holds d om) (C13.proj oi) (C13.proj om))
  | _ => none

def handleCheck (req : Json) : Json :=
  let c := getObj req "case"
  let impl := getObj req "impl"
  let id := getObj c "id"
  let y := toY (getObj c "doc")
  let opts := getOpts c
  let mode : Mode := if getStr c "mode" == "partial" then .partialLink else .normal
  let vc := getBool c "version_comment" false
  let want := getStrList c "want"
  let base : List (String × Json) := [("id", id)]
  let implOutcome := getStr impl "outcome"
  let base := base ++ (if want.contains "C16" then [("valid_spec", jb (C16.validDoc y))] else [])
  match parseDocument y with
  | .error e =>
    Json.mkObj (base ++ [("model_outcome", js "err"), ("model_stage", js "parse"), ("model_err", js (errName e)),
      ("outcome_agree", jb (implOutcome == "err")),
      ("errkind_agree", jb (getStr impl "err_kind" == errName e))])
  | .ok d =>
    match generate d opts mode vc with
    | .error (.err e) =>
      Json.mkObj (base ++ [("model_outcome", js "err"), ("model_stage", js "generate"), ("model_err", js (errName e)),
        ("outcome_agree", jb (implOutcome == "err")),
        ("errkind_agree", jb (getStr impl "err_kind" == errName e))])
    | .error .diverge =>
      Json.mkObj (base ++ [("model_outcome", js "diverge"), ("outcome_agree", jb false)])
    | .ok out =>
      let oi := obsOfImpl impl
      let om := Obs.ofOutputs out
      let agree : List (String × Bool) :=
        [("script", out.script == oi.script), ("joined", out.joined == oi.joined),
         ("header", out.header == oi.header), ("deps", out.deps == oi.deps),
         ("symbols", out.symbols == oi.symbols), ("partials", out.partials == oi.partials)]
      let all := implOutcome == "ok" && agree.all (·.2)
      let props : List (String × Json) :=
        if implOutcome == "ok" then
          want.filterMap fun p => (evalProp p y d opts mode vc oi om).map fun v => (p, verdictJson v)
        else []
      Json.mkObj (base ++ [("model_outcome", js "ok"), ("outcome_agree", jb (implOutcome == "ok")),
        ("full_equal", jb all),
        ("agree", Json.mkObj (agree.map fun (k, b) => (k, Json.bool b))),
        ("props", Json.mkObj props)]
        ++ (if all then [] else
             [("model", Json.mkObj [("script", jstr out.script), ("header", jstr out.header),
               ("deps", match out.deps with | some d => jstr d | none => .null),
               ("symbols", jstrs out.symbols),
               ("partials", Json.arr (out.partials.map fun (n, s) => Json.arr #[jstr n, jstr s]).toArray)])]))

def handlePrune (req : Json) : Json :=
  let c := getObj req "case"
  let y := toY (getObj c "doc")
  Json.mkObj [("id", getObj c "id"), ("doc", ofY (C06.pruneDocY (getOpts c) y))]

/-- `a` and `b` are harness answers; all outputs equal up to blank lines (and equal outcome). -/
def handleEqmod (req : Json) : Json :=
  let a := getObj req "a"
  let b := getObj req "b"
  let oa := getStr a "outcome"
  let ob := getStr b "outcome"
  if oa != ob then Json.mkObj [("equal", jb false), ("why", js s!"outcome {oa} vs {ob}")]
  else if oa != "ok" then Json.mkObj [("equal", jb true), ("why", js "")]
  else
    let x := obsOfImpl a
    let y := obsOfImpl b
    let chk : List (String × Bool) :=
      [("script", C06.eqModBlank x.script y.script), ("header", C06.eqModBlank x.header y.header),
       ("deps", match x.deps, y.deps with
          | some p, some q => C06.eqModBlank p q
          | none, none => true
          | _, _ => false),
       ("symbols", x.symbols == y.symbols),
       ("partials", x.partials.length == y.partials.length &&
          (x.partials.zip y.partials).all fun (p, q) => p.1 == q.1 && C06.eqModBlank p.2 q.2)]
    let bad := chk.filter (fun kv => !kv.2)
    Json.mkObj [("equal", jb bad.isEmpty), ("why", js (String.intercalate "," (bad.map (·.1))))]

def jnatOpt (o : Option Nat) : Json := match o with | some n => .num ⟨n, 0⟩ | none => .null

/-- `resolved` op: the twelve overridable options of every parsed segment, after resolution (C08). -/
def handleResolved (req : Json) : Json :=
  let c := getObj req "case"
  match parseDocument (toY (getObj c "doc")) with
  | .error e => Json.mkObj [("error", js (errName e))]
  | .ok d =>
    Json.mkObj [("segments", Json.arr (d.segments.map fun seg =>
      let r := C08.ofSegment seg
      Json.mkObj [
        ("alloc_sections", jstrs r.allocSections), ("noload_sections", jstrs r.noloadSections),
        ("subalign", jnatOpt r.subalign), ("segment_start_align", jnatOpt r.segmentStartAlign),
        ("segment_end_align", jnatOpt r.segmentEndAlign), ("section_start_align", jnatOpt r.sectionStartAlign),
        ("section_end_align", jnatOpt r.sectionEndAlign),
        ("sections_start_alignment", Json.mkObj (r.sectionsStartAlignment.map fun (k, v) => (t2s k, Json.num ⟨v, 0⟩))),
        ("sections_end_alignment", Json.mkObj (r.sectionsEndAlignment.map fun (k, v) => (t2s k, Json.num ⟨v, 0⟩))),
        ("wildcard_sections", jb r.wildcardSections), ("fill_value", jnatOpt r.fillValue),
        ("sections_subgroups", Json.mkObj (r.sectionsSubgroups.map fun (k, v) => (t2s k, jstrs v)))]).toArray)]

/-- `docinfo` op: what the image-level checks need to know about the parsed document, with
every symbol name computed by the model's `Style` table. -/
def handleDocInfo (req : Json) : Json :=
  let c := getObj req "case"
  let o := getOpts c
  match parseDocument (toY (getObj c "doc")) with
  | .error e => Json.mkObj [("error", js (errName e))]
  | .ok d =>
    let st := d.settings.style
    let single := d.settings.singleSegmentMode
    let secInfo (seg : Segment) (noload : Bool) (sec : Str) : Json :=
      Json.mkObj [("name", jstr sec), ("noload", jb noload),
        ("start", jstr (st.secStart seg.name sec)), ("end", jstr (st.secEnd seg.name sec)),
        ("size", jstr (st.secSize seg.name sec)),
        ("start_aligns", Json.arr ((seg.sectionStartAlign.toList ++ (lookup sec seg.sectionsStartAlignment).toList).map fun (n : Nat) => Json.num ⟨(n : Int), 0⟩).toArray),
        ("end_aligns", Json.arr ((seg.sectionEndAlign.toList ++ (lookup sec seg.sectionsEndAlignment).toList).map fun (n : Nat) => Json.num ⟨(n : Int), 0⟩).toArray),
        ("subgroups", jstrs (subgroupsOf seg sec))]
    let segInfo (seg : Segment) : Json :=
      Json.mkObj [("name", jstr seg.name), ("emitted", jb (single || C06.specEmit o seg.cond)),
        ("rom_start", jstr (st.segRomStart seg.name)), ("rom_end", jstr (st.segRomEnd seg.name)),
        ("rom_size", jstr (st.segRomSize seg.name)), ("vram", jstr (st.segVramStart seg.name)),
        ("vram_end", jstr (st.segVramEnd seg.name)), ("vram_size", jstr (st.segVramSize seg.name)),
        ("alloc", Json.mkObj [("start", jstr (st.segVramStart (kindName seg false))), ("end", jstr (st.segVramEnd (kindName seg false))),
                              ("size", jstr (st.segVramSize (kindName seg false)))]),
        ("noload", Json.mkObj [("start", jstr (st.segVramStart (kindName seg true))), ("end", jstr (st.segVramEnd (kindName seg true))),
                               ("size", jstr (st.segVramSize (kindName seg true)))]),
        ("sections", Json.arr ((seg.allocSections.map (secInfo seg false)) ++ (seg.noloadSections.map (secInfo seg true))).toArray),
        ("fixed_vram", jnatOpt seg.fixedVram),
        ("fixed_symbol", match seg.fixedSymbol with | some s => jstr s | none => .null),
        ("follows_segment", match seg.followsSegment with | some s => jstr s | none => .null),
        ("follows_end_sym", match seg.followsSegment with | some s => jstr (st.segVramEnd s) | none => .null),
        ("vram_class", match seg.vramClass with | some s => jstr s | none => .null),
        ("start_align", jnatOpt seg.segmentStartAlign), ("end_align", jnatOpt seg.segmentEndAlign),
        ("subalign", jnatOpt seg.subalign), ("wildcard", jb seg.wildcardSections),
        ("tables_ok", jb (
          let lists : List Str := seg.allocSections ++ seg.noloadSections
          let subVals : List Str := (seg.sectionsSubgroups.map (·.2)).flatten
          decide lists.Nodup && decide subVals.Nodup && subVals.all (fun x => !lists.contains x))),
        ("gp", match seg.gpInfo with
          | some g => if C06.specEmit o g.cond then Json.mkObj [("section", jstr g.sect), ("offset", .num ⟨g.offset, 0⟩)] else .null
          | none => .null),
        ("offsets", jstrs ((List.flatten (seg.files.map fun f => offsetsOf st o (confOf seg) f))))]
    Json.mkObj [("single", jb single),
      ("hardcoded_gp", jnatOpt d.settings.hardcodedGpValue),
      ("segments", Json.arr (d.segments.map segInfo).toArray),
      ("classes", Json.arr (d.vramClasses.map fun vc => Json.mkObj [("name", jstr vc.name),
          ("start", jstr (st.classStart vc.name)), ("end", jstr (st.classEnd vc.name)), ("size", jstr (st.classSize vc.name)),
          ("fixed_vram", jnatOpt vc.fixedVram),
          ("fixed_symbol", match vc.fixedSymbol with | some s => jstr s | none => .null),
          ("follows", jstrs vc.followsClasses),
          ("follows_end_syms", jstrs (vc.followsClasses.map st.classEnd))]).toArray),
      ("allowlist", jstrs (d.settings.sectionsAllowlist ++ d.settings.sectionsAllowlistExtra)),
      ("denylist", jstrs d.settings.sectionsDenylist), ("discard_wildcard", jb d.settings.discardWildcardSection)]
where
  /-- included linker-offset entries whose section is configured for the segment -/
  offsetsOf (st : Style) (o : Opts) (conf : List Str) : FileInfo → List Str
    | .mk _ kind _ _ se lo _ fs _ c _ =>
      if !C06.specEmit o c then [] else
      (if kind = .linkerOffset ∧ se ∈ conf then [st.linkerOffset lo] else []) ++ offsetsOfList st o conf fs
  offsetsOfList (st : Style) (o : Opts) (conf : List Str) : List FileInfo → List Str
    | [] => []
    | f :: fs => offsetsOf st o conf f ++ offsetsOfList st o conf fs
  /-- the configured sections of a segment: its two lists and everything reachable through sub-groups -/
  confOf (seg : Segment) : List Str :=
    let rec close (fuel : Nat) (front acc : List Str) : List Str :=
      match fuel with
      | 0 => acc
      | fuel + 1 =>
        let next := (front.map (subgroupsOf seg)).flatten.filter (fun x => x ∉ acc)
        if next.isEmpty then acc else close fuel next (acc ++ next)
    close (seg.sectionsSubgroups.length + 1) (seg.allocSections ++ seg.noloadSections) (seg.allocSections ++ seg.noloadSections)

def sortFs (fs : List (String × String)) : List (String × String) :=
  (fs.toArray.qsort (fun a b => a.1 < b.1)).toList

/-- `files` op: the file exports over a scratch directory. -/
def handleFiles (req : Json) : Json :=
  let c := getObj req "case"
  let impl := getObj req "impl"
  let y := toY (getObj c "doc")
  let opts := getOpts c
  let mode : Mode := if getStr c "mode" == "partial" then .partialLink else .normal
  let vc := getBool c "version_comment" false
  let out : Option Str := match c.getObjVal? "out" with
    | .ok (.str s) => some (s2t s)
    | _ => none
  let pre : Fs := match c.getObjVal? "pre" with
    | .ok (.arr a) => a.toList.filterMap fun x => match x with
        | .arr #[.str p, .str ct] => some (normPath (s2t p), s2t ct) | _ => none
    | _ => []
  let implOutcome := getStr impl "outcome"
  let implFiles : List (String × String) := match impl.getObjVal? "files" with
    | .ok (.obj o) => o.toList.filterMap fun (k, v) => match v with | .str s => some (k, s) | _ => none
    | _ => []
  let implStdout : Option String := match impl.getObjVal? "stdout" with
    | .ok (.str s) => some s
    | _ => none
  let base : List (String × Json) := [("id", getObj c "id")]
  match parseDocument y with
  | .error e => Json.mkObj (base ++ [("model_outcome", js "err"), ("model_err", js (errName e)),
      ("outcome_agree", jb (implOutcome == "err"))])
  | .ok d =>
    match fileRun d opts mode vc out pre with
    | .error (.err e) => Json.mkObj (base ++ [("model_outcome", js "err"), ("model_err", js (errName e)),
        ("outcome_agree", jb (implOutcome == "err"))])
    | .error .diverge => Json.mkObj (base ++ [("model_outcome", js "diverge"), ("outcome_agree", jb false)])
    | .ok r =>
      let mf := sortFs (r.fs.map fun (p, ct) => (t2s p, t2s ct))
      let imf := sortFs implFiles
      let filesEq := mf == imf
      let stdoutEq := (r.stdout.map t2s) == implStdout
      let diff : String :=
        if filesEq then "" else
          let mp := mf.map (·.1)
          let ip := imf.map (·.1)
          if mp != ip then s!"paths differ: impl {ip} vs model {mp}"
          else match (mf.zip imf).find? (fun (a, b) => a != b) with
            | some (a, _) => s!"content of {a.1} differs"
            | none => ""
      Json.mkObj (base ++ [("model_outcome", js "ok"), ("outcome_agree", jb (implOutcome == "ok")),
        ("files_equal", jb filesEq), ("stdout_equal", jb stdoutEq), ("diff", js diff),
        ("model_paths", Json.arr (mf.map fun x => js x.1).toArray),
        ("unequal", Json.arr ((mf.filter fun x => !(imf.contains x)).map fun x => js x.1).toArray)])

/-- `cli` op: the command-line tool over a scratch directory (C20). -/
def handleCli (req : Json) : Json :=
  let c := getObj req "case"
  let impl := getObj req "impl"
  let y := toY (getObj c "doc")
  let args : CliArgs :=
    { customOptions := (getStrList c "cli_opts").map s2t,
      output := match c.getObjVal? "out" with | .ok (.str s) => some (s2t s) | _ => none,
      partialLinking := getStr c "mode" == "partial",
      omitVersionComment := !(getBool c "version_comment" false) }
  let pre : Fs := match c.getObjVal? "pre" with
    | .ok (.arr a) => a.toList.filterMap fun x => match x with
        | .arr #[.str p, .str ct] => some (normPath (s2t p), s2t ct) | _ => none
    | _ => []
  let r := cliRun (parseDocument y) args pre
  let implExitZero := getBool impl "exit_zero" false
  let implFiles : List (String × String) := match impl.getObjVal? "files" with
    | .ok (.obj o) => o.toList.filterMap fun (k, v) => match v with | .str s => some (k, s) | _ => none
    | _ => []
  let implStdout := getStr impl "stdout"
  let mf := sortFs (r.fs.map fun (p, ct) => (t2s p, t2s ct))
  let imf := sortFs implFiles
  let exitAgree := (r.exit == .zero) == implExitZero
  let filesEq := mf == imf
  let stdoutEq := match r.stdout with
    | some t => t2s t == implStdout
    | none => r.exit != .zero || implStdout == ""
  let optsParsed : Json := match parseOptArgs args.customOptions with
    | some l => Json.arr (l.map fun (k, v) => Json.arr #[jstr k, jstr v]).toArray
    | none => .null
  Json.mkObj [("id", getObj c "id"), ("model_exit_zero", jb (r.exit == .zero)), ("exit_agree", jb exitAgree),
    ("files_equal", jb (r.exit != .zero || filesEq)), ("stdout_equal", jb stdoutEq),
    ("model_paths", Json.arr (mf.map fun x => js x.1).toArray),
    ("unequal", Json.arr (((mf.filter fun x => !(imf.contains x)).map fun x => js x.1)
        ++ ((imf.filter fun x => !(mf.any fun m => m.1 == x.1)).map fun x => js ("+" ++ x.1))).toArray),
    ("opts", optsParsed)]

/-- `c11` op: one-step against partial generation (two harness answers for the same document). -/
def handleC11 (req : Json) : Json :=
  let c := getObj req "case"
  let o := getOpts c
  let vc := getBool c "version_comment" false
  match parseDocument (toY (getObj c "doc")) with
  | .error e => Json.mkObj [("error", js (errName e))]
  | .ok d =>
    let hi := C11.holds d o (obsOfImpl (getObj req "normal")) (obsOfImpl (getObj req "partial"))
    let hm : Bool × String := match generate d o .normal vc, generate d o .partialLink vc with
      | .ok a, .ok b => C11.holds d o (Obs.ofOutputs a) (Obs.ofOutputs b)
      | _, _ => (false, "model did not generate both")
    Json.mkObj [("holds_impl", jb hi.1), ("why", js hi.2), ("holds_model", jb hm.1), ("why_model", js hm.2)]

/-- the names a script assigns more than once (`Ld.assignCount n script > 1`: the hypothesis of the
"in the image `Ld.link` returns" theorems, Props/Final.lean, fails for exactly these). -/
def assignedTwice (ls : List Line) : List Str :=
  let names := ls.filterMap fun l => match l with
    | .assign s _ _ _ _ => if s = c!"." then none else some s
    | .addAssign s _ => if s = c!"." then none else some s
    | _ => none
  dedup (names.filter fun n => names.count n > 1)

/-- the output-section names a script opens more than once (`Ld.hdrCount n script > 1`: the second hypothesis of
`C03.final_vram_start`, Props/FinalSecs.lean). -/
def headersTwice (ls : List Line) : List Str :=
  let names := ls.filterMap fun l => match l with
    | .outHdr n _ _ _ _ => some n
    | .singleEntry s _ => some s
    | _ => none
  dedup (names.filter fun n => names.count n > 1)

/-- op `ld`: run the linker semantics (Slinkyv.Ld) on a script text and an object table.
request: script, objects = [[path, member|null, sec, size, align], …] in command-line order,
defsyms = [[name, value], …]. -/
def handleLd (req : Json) : Json :=
  let ls := parseScript (s2t (getStr req "script"))
  let objs : List Ld.InSec :=
    match req.getObjVal? "objects" with
    | .ok (.arr a) => a.toList.filterMap fun x =>
        match x with
        | .arr #[.str p, m, .str sec, .num sz, .num al] =>
          some { path := s2t p, member := (match m with | .str mm => some (s2t mm) | _ => none),
                 sec := s2t sec, size := sz.mantissa.toNat, align := al.mantissa.toNat }
        | _ => none
    | _ => []
  let defs : List (Str × Nat) :=
    match req.getObjVal? "defsyms" with
    | .ok (.arr a) => a.toList.filterMap fun x =>
        match x with
        | .arr #[.str n, .num v] => some (s2t n, v.mantissa.toNat)
        | _ => none
    | _ => []
  let im := Ld.link objs defs ls
  let jn (n : Nat) : Json := .num ⟨Int.ofNat n, 0⟩
  Json.mkObj [
    ("stable", .bool (Ld.stable objs defs ls)),
    ("emptied", .bool im.emptied),
    ("assigned_twice", .arr ((assignedTwice ls).map fun n => Json.str (t2s n)).toArray),
    ("headers_twice", .arr ((headersTwice ls).map fun n => Json.str (t2s n)).toArray),
    ("syms", Json.mkObj (im.syms.filterMap fun kv => match kv.2 with | some v => some (t2s kv.1, jn v) | none => none)),
    ("unresolved", .arr (im.syms.filterMap fun kv => match kv.2 with | none => some (Json.str (t2s kv.1)) | some _ => none).toArray),
    ("secs", .arr (im.secs.map fun o => Json.mkObj [("name", .str (t2s o.name)), ("addr", jn o.addr), ("size", jn o.size),
        ("lma", match o.lma with | some v => jn v | none => .null), ("noload", .bool o.noload), ("align", jn o.align)]).toArray),
    ("placed", .arr (im.placed.map fun p => Json.arr #[.str (t2s p.inp.path),
        (match p.inp.member with | some m => .str (t2s m) | none => .null), .str (t2s p.inp.sec), jn p.addr, .str (t2s p.out)]).toArray),
    ("discarded", .arr (im.discarded.map fun i => Json.arr #[.str (t2s i.path),
        (match i.member with | some m => .str (t2s m) | none => .null), .str (t2s i.sec)]).toArray)]

/-- op `twostep`: the order of the input sections after the two-step link of partial mode
(Slinkyv.Ld2): request objects as for `ld`, partials = [[object path, script text], …], main = script text,
ordinary = the ordinary script of the same document. `two_exact` is the same link with the main
script's statements for the partial objects taken by exact name (no `*`). -/
def handleTwoStep (req : Json) : Json :=
  let objs : List Ld.InSec :=
    match req.getObjVal? "objects" with
    | .ok (.arr a) => a.toList.filterMap fun x =>
        match x with
        | .arr #[.str p, m, .str sec, .num sz, .num al] =>
          some { path := s2t p, member := (match m with | .str mm => some (s2t mm) | _ => none),
                 sec := s2t sec, size := sz.mantissa.toNat, align := al.mantissa.toNat }
        | _ => none
    | _ => []
  let partials : List (Str × List Line) :=
    match req.getObjVal? "partials" with
    | .ok (.arr a) => a.toList.filterMap fun x =>
        match x with
        | .arr #[.str p, .str t] => some (s2t p, parseScript (s2t t))
        | _ => none
    | _ => []
  let main := parseScript (s2t (getStr req "main"))
  let ordinary := parseScript (s2t (getStr req "ordinary"))
  let pobjs := partials.map (·.1)
  let exact := main.map fun l => match l with
    | .input k p m s w => if p ∈ pobjs then Line.input k p m s false else .input k p m s w
    | l => l
  let show_ (l : List (Ld.InSec × Str)) : Json := .arr (l.map fun i => Json.arr #[.str (t2s i.1.path),
        (match i.1.member with | some m => .str (t2s m) | none => .null), .str (t2s i.1.sec), .str (t2s i.2)]).toArray
  -- `Ld.twoStep` with every input section labelled by the partial object it arrives in
  let labelled (mainLines : List Line) : List (Ld.InSec × Str) :=
    let comps := partials.flatMap fun p => Ld.relink objs p.1 p.2
    (Ld.takes (comps.map (·.sec)) false false [] mainLines).flatMap fun cs =>
      (comps.filter fun c => c.sec = cs).flatMap fun c => c.items.map fun i => (i, c.obj)
  Json.mkObj [
    ("two", show_ (labelled main)),
    ("two_exact", show_ (labelled exact)),
    ("two_plain", .bool ((labelled main).map (·.1) == Ld.twoStep objs partials main)),
    ("one", show_ ((Ld.oneStep objs ordinary).map fun i => (i, [])))]

def handle (req : Json) : Json :=
  match getStr req "op" with
  | "ld" => handleLd req
  | "twostep" => handleTwoStep req
  | "prune" => handlePrune req
  | "eqmod" => handleEqmod req
  | "files" => handleFiles req
  | "resolved" => handleResolved req
  | "cli" => handleCli req
  | "docinfo" => handleDocInfo req
  | "c11" => handleC11 req
  | _ => handleCheck req

partial def loop (h : IO.FS.Stream) (out : IO.FS.Stream) : IO Unit := do
  let line ← h.getLine
  if line.isEmpty then return ()
  let ans := match Json.parse line with
    | .ok j => handle j
    | .error e => Json.mkObj [("bad_request", js e)]
  out.putStrLn ans.compress
  out.flush
  loop h out

def main : IO Unit := do
  loop (← IO.getStdin) (← IO.getStdout)
